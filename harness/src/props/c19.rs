//! C19 — no peer-controlled input makes the library panic.
//!
//! Obs: every entry point that parses peer-controlled bytes is executed on structured mutations of
//! valid messages and on random bytes, whole and fragmented, inside `report::guard` (the `mon`
//! build has overflow checks and debug assertions on):
//!
//! * `h1`        the real HTTP/1 dispatcher on the scripted socket (`world::run::run_scenario`)
//! * `h1codec`   `h1::Codec` decode loop + response encoding that echoes request header values +
//!               `ws::handshake` / message helpers on every decoded head
//! * `client`    `h1::ClientCodec` / `ClientPayloadCodec` the way awc drives them
//! * `ws`        `ws::Codec` in both roles (decoded frames are echoed through the encoder),
//!               `wsparse` `ws::Parser::parse`, `wshs` `ws::handshake` on header sets
//! * `multipart` `actix_multipart::Multipart` (body + Content-Type), capped consumer
//! * `router`    `ResourceDef::capture_match_info` on `Path<Url>` + `Path::load::<T>()`
//! * `web`       a real `App` (scopes, NormalizePath, multi-pattern and regex resources) whose handler
//!               runs `web::Path<T>` and `web::Query<T>` for many `T`
//! * `query`     `web::Query::<T>::from_query` / extraction from a request
//! * `hdr:<H>`   every typed header (`Header::parse`, `get_header`, re-serialisation)
//! * `conninfo`  `ConnectionInfo` (Forwarded / X-Forwarded-*), `full_url`; `cookies`; `msg`
//!               (`content_type`, `mime_type`, `encoding`, `chunked`)
//! * `files`     `actix_files::Files` / `NamedFile` on files of length 0, 1 and 100 000 with hostile
//!               Range / If-* headers
//!
//! Oracle: no panic (also none swallowed by a spawned task); every decoder loop terminates within
//! `len + 16` produced items and every connection / stream consumer stops self-waking within its
//! poll cap (unbounded loop); a case that does not return within the wall-clock limit is reported by
//! a watchdog thread as class `hang`.  Output well-formedness (the `monrel` clause): bytes delivered
//! never exceed bytes fed, a 206 carries a satisfiable Content-Range matching its body, the
//! response stream written by the dispatcher parses.  Everything else (which error, whether a
//! message is accepted) is counted, never judged — that is the business of C01–C18.

use std::{
    cell::RefCell,
    collections::{BTreeSet, HashMap, VecDeque},
    future::Future,
    path::PathBuf,
    pin::Pin,
    rc::Rc,
    sync::Mutex,
    task::{Context, Poll},
    time::{Duration, Instant},
};

use actix_http::{
    body::{BodySize, MessageBody},
    h1,
    header::{HeaderMap, HeaderName, HeaderValue},
    ws, HttpMessage as _, Method, RequestHead, RequestHeadType, Response, StatusCode, Uri, Version,
};
use actix_service::Service;
use actix_web::{
    dev::{Payload, ServiceResponse},
    error::PayloadError,
    http::header as wh,
    test::{self, TestRequest},
    web, App, FromRequest, HttpRequest, HttpResponse,
};
use bytes::{Bytes, BytesMut};
use futures_core::Stream;
use futures_util::StreamExt as _;
use serde::Deserialize;
use serde_json::{json, Value};
use tokio_util::codec::{Decoder, Encoder};

use crate::{
    gen::h1 as gh1,
    refmodel::{h1_resp, multipart_gen as mg, ws as rf},
    report::{guard, panic_site, Ctx, Reporter},
    util::{esc_short, hex, unhex, Rng},
    world::{
        conn::ConnCfg,
        exec::{run_virtual, Driven},
        run::{run_scenario, Act, Scenario},
        svc::{Prog, ReadMode},
    },
};

// ------------------------------------------------------------------------------------------------
// cases, results, watchdog
// ------------------------------------------------------------------------------------------------

#[derive(Clone, Debug)]
struct Case {
    /// entry point ("h1", "ws", "hdr:Range", ...)
    ep: String,
    /// mutation class label (evidence / signature)
    mc: String,
    data: Vec<u8>,
    /// second input (Content-Type of a multipart body, ...)
    aux: Vec<u8>,
    /// read segmentation (cut positions inside `data`)
    cuts: Vec<usize>,
    /// entry-point specific variant (role, max_size, handler program, ...)
    v: u32,
}

impl Case {
    fn new(ep: &str, mc: &str, data: Vec<u8>) -> Case {
        Case { ep: ep.to_string(), mc: mc.to_string(), data, aux: vec![], cuts: vec![], v: 0 }
    }
    fn replay(&self) -> Value {
        json!({"ep": self.ep, "mc": self.mc, "data": hex(&self.data), "aux": hex(&self.aux), "cuts": self.cuts, "v": self.v})
    }
    fn from_json(v: &Value) -> Case {
        Case {
            ep: v["ep"].as_str().unwrap_or("").to_string(),
            mc: v["mc"].as_str().unwrap_or("replay").to_string(),
            data: unhex(v["data"].as_str().unwrap_or("")),
            aux: unhex(v["aux"].as_str().unwrap_or("")),
            cuts: v["cuts"].as_array().map(|a| a.iter().filter_map(|x| x.as_u64()).map(|x| x as usize).collect()).unwrap_or_default(),
            v: v["v"].as_u64().unwrap_or(0) as u32,
        }
    }
    fn show(&self) -> String {
        format!("ep={} mutation={} v={} cuts={:?} data({})={} aux={}", self.ep, self.mc, self.v, &self.cuts[..self.cuts.len().min(12)], self.data.len(), esc_short(&self.data, 400), esc_short(&self.aux, 120))
    }
    /// segments of `data` as the read schedule delivers them
    fn segments(&self) -> Vec<&[u8]> {
        let mut out = vec![];
        let mut prev = 0;
        for &c in &self.cuts {
            if c > prev && c < self.data.len() {
                out.push(&self.data[prev..c]);
                prev = c;
            }
        }
        out.push(&self.data[prev..]);
        out
    }
}

enum Res {
    /// outcome class
    Out(String),
    Panic(String),
    Fail { class: &'static str, what: String, detail: String },
}

fn fail(class: &'static str, what: impl Into<String>, detail: impl Into<String>) -> Res {
    Res::Fail { class, what: what.into(), detail: detail.into() }
}

/// first identifier of a Debug rendering: the error variant
fn variant<T: std::fmt::Debug>(e: &T) -> String {
    let s = format!("{e:?}");
    s.split(|c: char| !(c.is_alphanumeric() || c == '_')).find(|p| !p.is_empty()).unwrap_or("?").chars().take(24).collect()
}

static WATCH: Mutex<Option<(Instant, Case)>> = Mutex::new(None);

fn watch_begin(c: &Case) {
    if let Ok(mut w) = WATCH.lock() {
        *w = Some((Instant::now(), c.clone()));
    }
}
fn watch_end() {
    if let Ok(mut w) = WATCH.lock() {
        *w = None;
    }
}

/// A case that does not return is an unbounded loop inside the library.  The monitor thread
/// appends the witness to the shard log itself (the main thread is stuck and will never write
/// again) and ends the process.
fn start_watchdog(limit: Duration) {
    let args: Vec<String> = std::env::args().collect();
    let log = args.iter().position(|a| a == "--log").and_then(|i| args.get(i + 1)).cloned();
    let Some(log) = log else { return };
    std::thread::spawn(move || loop {
        std::thread::sleep(Duration::from_millis(100));
        // an unbounded loop that keeps allocating must not take the machine down first
        let heap = crate::world::alloc::live();
        let stuck = match WATCH.lock() {
            Ok(w) => w.as_ref().filter(|(t, _)| t.elapsed() > limit || heap > HEAP_LIMIT).map(|(_, c)| c.clone()),
            Err(_) => None,
        };
        if let Some(c) = stuck {
            let why = if heap > HEAP_LIMIT { format!("heap grew to {} MiB inside one case", heap >> 20) } else { format!("no return within {} s", limit.as_secs()) };
            let line = json!({"t": "viol", "class": "hang", "signature": format!("{}/{}", c.ep, c.mc.trim_end_matches('+')),
                "detail": format!("{why} (unbounded loop): {}", c.show()), "replay": c.replay()});
            if let Ok(mut f) = std::fs::OpenOptions::new().append(true).open(&log) {
                use std::io::Write as _;
                let _ = writeln!(f, "{line}");
            }
            std::process::exit(3);
        }
    });
}

const HEAP_LIMIT: usize = 3 << 30;

/// Did the panic hook fire for a panic that something below us swallowed (a spawned task)?
/// `resume_unwind` does not run the hook, so `guard` hands back whatever message is pending.
fn swallowed_panic() -> Option<String> {
    match guard(|| std::panic::resume_unwind(Box::new(()))) {
        Err(m) if m != "panic (no message)" => Some(m),
        _ => None,
    }
}

// ------------------------------------------------------------------------------------------------
// mutation engine
// ------------------------------------------------------------------------------------------------

const MUT_CLASSES: &[&str] = &["bitflip", "insert", "delete", "truncate", "dup-field", "oversize", "num-extreme", "non-utf8", "long-token", "repeat", "nest", "splice", "random", "special"];

/// decimal extremes for every numeric position
const NUMS: &[&str] = &[
    "0", "1", "00000000000000000000000000000000000000001", "255", "256", "65535", "65536", "2147483647", "2147483648", "4294967295", "4294967296",
    "9223372036854775807", "9223372036854775808", "18446744073709551615", "18446744073709551616", "99999999999999999999999999999", "-1", "+1", "1.5", "1e9", "",
];
/// hexadecimal extremes (chunk sizes)
const HEXNUMS: &[&str] = &[
    "0", "ffff", "10000", "7fffffff", "80000000", "ffffffff", "100000000", "7fffffffffffffff", "8000000000000000", "ffffffffffffffff", "10000000000000000",
    "fffffffffffffffffffffffffff", "0000000000000000000000000000000000001", "-1", "+a", "0x10", "g", "",
];
const INTERESTING: &[u8] = b"\r\n\0 \t\"\\;,=%/:-*()<>[]{}?&#'@+.\x7f\x80\xff";
const INVALID_UTF8: &[&[u8]] = &[b"\xff", b"\xc3\x28", b"\xed\xa0\x80", b"\xf8\x88\x80\x80\x80", b"\x80", b"\xc0\xaf", b"\xe2\x82", b"\xf0\x9f\x92"];
const INVALID_PCT: &[&str] = &["%ff", "%c3%28", "%ed%a0%80", "%80", "%00", "%", "%f", "%zz", "%c0%af", "%e2%82", "%2", "%25ff", "%0a", "%0d%0a", "%2f", "%2F..%2f", "%5c", "%u1234"];

const NEST: &[(&[u8], &[u8])] = &[
    (b"(", b")"),
    (b"\"", b"\""),
    (b"\\\"", b"\\\""),
    (b"\"\\", b"\""),
    (b"[", b"]"),
    (b"{", b"}"),
    (b"<", b">"),
    (b"%25", b""),
    (b"'", b"'"),
    (b"/..", b""),
    (b"/.", b"/"),
    (b"\\", b""),
    (b"(\"", b"\")"),
];

fn digit_runs(d: &[u8], hex: bool) -> Vec<(usize, usize)> {
    let is = |b: u8| if hex { b.is_ascii_hexdigit() } else { b.is_ascii_digit() };
    let mut out = vec![];
    let mut i = 0;
    while i < d.len() {
        if is(d[i]) {
            let s = i;
            while i < d.len() && is(d[i]) {
                i += 1;
            }
            // a hex run is only a number when it is not part of a word
            let word = hex && ((s > 0 && d[s - 1].is_ascii_alphabetic()) || (i < d.len() && d[i].is_ascii_alphabetic()));
            if !word {
                out.push((s, i));
            }
        } else {
            i += 1;
        }
    }
    out
}

fn splice(d: &[u8], s: usize, e: usize, with: &[u8]) -> Vec<u8> {
    let mut o = Vec::with_capacity(d.len() + with.len());
    o.extend_from_slice(&d[..s]);
    o.extend_from_slice(with);
    o.extend_from_slice(&d[e..]);
    o
}

const DELIMS: &[&[u8]] = &[b"\r\n", b",", b";", b"&", b"/", b" ", b"=", b"\n", b"--"];

/// (start, end) of the pieces of `d` between occurrences of `delim`
fn pieces(d: &[u8], delim: &[u8]) -> Vec<(usize, usize)> {
    let mut out = vec![];
    let mut s = 0;
    let mut i = 0;
    while i + delim.len() <= d.len() {
        if &d[i..i + delim.len()] == delim {
            out.push((s, i));
            i += delim.len();
            s = i;
        } else {
            i += 1;
        }
    }
    out.push((s, d.len()));
    out
}

struct Mut<'a> {
    /// percent-encoded rather than raw invalid UTF-8 (URIs)
    pct: bool,
    /// upper bound for the mutated length
    max_len: usize,
    /// another seed of the same family
    other: &'a [u8],
}

fn mutate_once(rng: &mut Rng, d: &[u8], class: &str, m: &Mut<'_>) -> Vec<u8> {
    let pos = |rng: &mut Rng, d: &[u8]| if d.is_empty() { 0 } else { rng.below(d.len() + 1) };
    let mut out = match class {
        "bitflip" => {
            let mut o = d.to_vec();
            if !o.is_empty() {
                for _ in 0..rng.range(1, 4) {
                    let i = rng.below(o.len());
                    o[i] ^= 1 << rng.below(8);
                }
            }
            o
        }
        "insert" => {
            let mut o = d.to_vec();
            for _ in 0..rng.range(1, 4) {
                let p = pos(rng, &o);
                let b = if rng.chance(2, 3) { *rng.pick(INTERESTING) } else { rng.next() as u8 };
                o.insert(p, b);
            }
            o
        }
        "delete" => {
            if d.is_empty() {
                vec![]
            } else {
                let s = rng.below(d.len());
                let e = (s + rng.range(1, 8)).min(d.len());
                splice(d, s, e, b"")
            }
        }
        "truncate" => d[..pos(rng, d).min(d.len())].to_vec(),
        "dup-field" => {
            let present: Vec<&&[u8]> = DELIMS.iter().filter(|dl| d.windows(dl.len()).any(|w| w == **dl)).collect();
            if present.is_empty() {
                [d, d].concat()
            } else {
                let dl = **rng.pick(&present);
                let ps = pieces(d, dl);
                let (s, e) = *rng.pick(&ps);
                let mut ins = vec![];
                for _ in 0..rng.range(1, 3) {
                    ins.extend_from_slice(dl);
                    ins.extend_from_slice(&d[s..e]);
                }
                splice(d, e, e, &ins)
            }
        }
        "oversize" => {
            let dl = *rng.pick(DELIMS);
            let ps = pieces(d, dl);
            let (s, e) = *rng.pick(&ps);
            let want = *rng.pick(&[200usize, 256, 4096, 8192, 66_000, 140_000]);
            let want = want.min(m.max_len);
            let unit: Vec<u8> = if e > s && rng.chance(1, 2) { d[s..e].to_vec() } else { vec![*rng.pick(b"Aa0-/%.x")] };
            let mut big = Vec::with_capacity(want + unit.len());
            while big.len() < want {
                big.extend_from_slice(&unit);
            }
            splice(d, s, e, &big)
        }
        "num-extreme" => {
            let hexm = rng.chance(1, 4);
            let runs = digit_runs(d, hexm);
            if runs.is_empty() {
                let p = pos(rng, d);
                splice(d, p, p, rng.pick(NUMS).as_bytes())
            } else {
                let (s, e) = *rng.pick(&runs);
                let with = if hexm { *rng.pick(HEXNUMS) } else { *rng.pick(NUMS) };
                splice(d, s, e, with.as_bytes())
            }
        }
        "non-utf8" => {
            let mut o = d.to_vec();
            for _ in 0..rng.range(1, 3) {
                let p = pos(rng, &o);
                let with: Vec<u8> = if m.pct { rng.pick(INVALID_PCT).as_bytes().to_vec() } else { rng.pick(INVALID_UTF8).to_vec() };
                o = splice(&o, p, p, &with);
            }
            o
        }
        "long-token" => {
            let n = (*rng.pick(&[130usize, 300, 1024, 5000, 33_000, 66_000])).min(m.max_len);
            let c = *rng.pick(b"aZ0-_.~%/");
            let p = pos(rng, d);
            splice(d, p, p, &vec![c; n])
        }
        "repeat" => {
            if d.is_empty() {
                vec![b','; 100]
            } else {
                let s = rng.below(d.len());
                let e = (s + rng.range(1, 24)).min(d.len());
                let n = *rng.pick(&[3usize, 20, 97, 500, 5000]);
                let n = n.min(m.max_len / (e - s).max(1)).max(1);
                let mut ins = Vec::with_capacity(n * (e - s));
                for _ in 0..n {
                    ins.extend_from_slice(&d[s..e]);
                }
                splice(d, s, e, &ins)
            }
        }
        "nest" => {
            let depth = (*rng.pick(&[3usize, 10, 100, 1000, 20_000])).min(m.max_len / 4).max(1);
            let (open, close) = *rng.pick(NEST);
            let mut ins = Vec::with_capacity(depth * (open.len() + close.len()) + 1);
            for _ in 0..depth {
                ins.extend_from_slice(open);
            }
            ins.push(b'x');
            if rng.chance(2, 3) {
                for _ in 0..depth {
                    ins.extend_from_slice(close);
                }
            }
            let p = pos(rng, d);
            splice(d, p, p, &ins)
        }
        "splice" => {
            let a = pos(rng, d).min(d.len());
            let b = pos(rng, m.other).min(m.other.len());
            [&d[..a], &m.other[b..]].concat()
        }
        "random" => {
            let n = match rng.below(4) {
                0 => rng.below(8),
                1 | 2 => rng.below(64),
                _ => rng.below(600),
            };
            if rng.chance(1, 2) {
                rng.bytes(n)
            } else {
                // random over the alphabet of the seed plus the interesting bytes
                let alpha: Vec<u8> = if d.is_empty() { INTERESTING.to_vec() } else { [d, INTERESTING].concat() };
                (0..n).map(|_| *rng.pick(&alpha)).collect()
            }
        }
        _ => d.to_vec(),
    };
    if out.len() > m.max_len {
        out.truncate(m.max_len);
    }
    out
}

/// One to three stacked mutations; the label is the first (primary) class.
fn mutate(rng: &mut Rng, seed: &[u8], m: &Mut<'_>) -> (Vec<u8>, String) {
    if rng.chance(1, 25) {
        return (seed.to_vec(), "none".into());
    }
    let first = *rng.pick(&MUT_CLASSES[..13]);
    let mut d = mutate_once(rng, seed, first, m);
    let extra = match rng.below(10) {
        0..=5 => 0,
        6..=8 => 1,
        _ => 2,
    };
    for _ in 0..extra {
        let c = *rng.pick(&["bitflip", "insert", "delete", "truncate", "num-extreme", "non-utf8", "dup-field"]);
        d = mutate_once(rng, &d, c, m);
    }
    (d, if extra == 0 { first.to_string() } else { format!("{first}+") })
}

/// Read segmentation: whole, all-1-byte (short inputs), random cuts.
fn gen_cuts(rng: &mut Rng, len: usize) -> Vec<usize> {
    match rng.below(4) {
        0 | 1 => vec![],
        2 if len <= 700 => (1..len).collect(),
        _ => rng.cuts(len, 8),
    }
}

fn cut_class(c: &Case) -> &'static str {
    if c.cuts.is_empty() {
        "whole"
    } else if c.cuts.len() + 1 >= c.data.len() {
        "bytewise"
    } else {
        "cuts"
    }
}

// ------------------------------------------------------------------------------------------------
// sanitisers: what the transport below the entry point guarantees
// ------------------------------------------------------------------------------------------------

/// Header values reach typed parsers only after httparse accepted them: no CTL except HTAB.
fn clean_value(v: &[u8]) -> HeaderValue {
    let t: Vec<u8> = v.iter().map(|&b| if (b < 0x20 && b != b'\t') || b == 0x7f { b' ' } else { b }).collect();
    // httparse/the decoder trim optional whitespace around the value
    let s = t.iter().position(|b| *b != b' ' && *b != b'\t').unwrap_or(t.len());
    let e = t.iter().rposition(|b| *b != b' ' && *b != b'\t').map(|i| i + 1).unwrap_or(s);
    HeaderValue::from_bytes(&t[s..e]).unwrap_or_else(|_| HeaderValue::from_static(""))
}

/// Lines (LF separated) of a mutated multi-line header value.
fn value_lines(d: &[u8]) -> Vec<HeaderValue> {
    d.split(|b| *b == b'\n').take(12).map(clean_value).collect()
}

/// A request target reaches the router only as a valid `http::Uri`.
fn clean_uri(d: &[u8]) -> String {
    // http::Uri accepts at most 65 534 bytes; longer targets are refused by the decoder
    let lim = if d.first() == Some(&b'/') { 65_534 } else { 65_533 };
    let d = if d.len() > lim { &d[..lim] } else { d };
    let mut s = String::with_capacity(d.len() + 1);
    if d.first() != Some(&b'/') {
        s.push('/');
    }
    s.push_str(&String::from_utf8_lossy(d));
    if Uri::try_from(s.as_str()).is_ok() {
        return s;
    }
    let mut t = String::with_capacity(d.len() * 3 + 1);
    if d.first() != Some(&b'/') {
        t.push('/');
    }
    let mut seen_q = false;
    for &b in d {
        let keep = b.is_ascii_alphanumeric() || b"-._~!$&'()*+,;=:@/%".contains(&b) || (b == b'?' && !seen_q);
        if b == b'?' {
            seen_q = true;
        }
        if keep {
            t.push(b as char);
        } else {
            t.push_str(&format!("%{b:02X}"));
        }
    }
    if t.len() > 65_534 {
        t.truncate(65_534);
        while t.ends_with('%') || t[..t.len() - 1].ends_with('%') {
            t.pop();
        }
    }
    if Uri::try_from(t.as_str()).is_ok() {
        t
    } else {
        "/".into()
    }
}

/// `URI LF name: value LF name: value ...` → (uri, headers) with everything constructible
fn parse_reqtext(d: &[u8]) -> (String, Vec<(HeaderName, HeaderValue)>) {
    let mut lines = d.split(|b| *b == b'\n');
    let uri = clean_uri(lines.next().unwrap_or(b"/"));
    let mut hs = vec![];
    for l in lines.take(24) {
        let Some(c) = l.iter().position(|b| *b == b':') else { continue };
        let name: Vec<u8> = l[..c].iter().filter(|b| b.is_ascii_alphanumeric() || **b == b'-' || **b == b'_').copied().take(64).collect();
        let Ok(n) = HeaderName::from_bytes(&name) else { continue };
        hs.push((n, clean_value(&l[c + 1..])));
    }
    (uri, hs)
}


// ------------------------------------------------------------------------------------------------
// request objects without the per-request leak of the test utilities
// ------------------------------------------------------------------------------------------------

// `TestRequest::to_http_request()` gives every request its own `AppInitServiceState`; on drop the
// request parks itself in that state's pool, which it also owns: a cycle, ~4 KB leaked per
// request.  Millions of cases would turn that into gigabytes (and LeakSanitizer reports), so the
// extractor entry points re-use one long-lived request per thread and rewrite its head.
thread_local! {
    static SREQ: RefCell<[Option<actix_web::dev::ServiceRequest>; 2]> = const { RefCell::new([None, None]) };
}

/// Run `f` on an `HttpRequest` with the given target, headers and peer address.  `kind` 1 carries
/// a `MultipartConfig` with a 4 KiB buffer limit as app data.
fn with_req<R>(kind: usize, uri: &str, headers: Vec<(HeaderName, HeaderValue)>, peer: bool, f: impl FnOnce(&HttpRequest) -> R) -> R {
    let mut sr = SREQ.with(|c| c.borrow_mut()[kind].take()).unwrap_or_else(|| {
        let tr = TestRequest::default();
        if kind == 1 { tr.app_data(actix_multipart::MultipartConfig::default().buffer_limit(4096)) } else { tr }.to_srv_request()
    });
    let u = Uri::try_from(uri).unwrap_or_default();
    {
        let head = sr.head_mut();
        head.headers.clear();
        for (n, v) in headers {
            head.headers.append(n, v);
        }
        head.peer_addr = if peer { Some("192.0.2.1:4000".parse().unwrap()) } else { None };
        head.uri = u.clone();
    }
    sr.match_info_mut().get_mut().update(&u);
    sr.match_info_mut().reset();
    sr.request().extensions_mut().clear();
    let r = f(sr.request());
    // only reached when `f` did not panic; after a panic the next call builds a fresh request
    SREQ.with(|c| c.borrow_mut()[kind] = Some(sr));
    r
}

/// A bare message for the typed-header parsers (`Header::parse` takes any `HttpMessage`).
fn msg_with(name: &HeaderName, lines: Vec<HeaderValue>) -> actix_http::Request {
    let mut m = actix_http::Request::new();
    for v in lines {
        m.headers_mut().append(name.clone(), v);
    }
    m
}

/// LeakSanitizer: `ResourceDef::parse` leaks its capture names on purpose (documented in the
/// source); everything else stays checked.
#[no_mangle]
pub extern "C" fn __lsan_default_suppressions() -> *const std::ffi::c_char {
    c"leak:actix-router/src/resource.rs\nleak:actix_router::resource::ResourceDef\n".as_ptr()
}

// ------------------------------------------------------------------------------------------------
// entry points that need no runtime: typed headers, ConnectionInfo, cookies, message helpers
// ------------------------------------------------------------------------------------------------

fn ready<F: Future>(f: F) -> Option<F::Output> {
    let mut f = Box::pin(f);
    let w = futures_util::task::noop_waker();
    let mut cx = Context::from_waker(&w);
    match f.as_mut().poll(&mut cx) {
        Poll::Ready(v) => Some(v),
        Poll::Pending => None,
    }
}

fn hdr_outcome<H: wh::Header>(req: &actix_http::Request) -> String {
    let got = req.get_header::<H>().is_some();
    match H::parse(req) {
        Ok(h) => match h.try_into_value() {
            Ok(v) => {
                // what the library would send back must again be a header it can read
                let r2 = msg_with(&H::name(), vec![v]);
                let again = H::parse(&r2).is_ok();
                format!("ok{}{}", if got { "" } else { "/get-none" }, if again { "" } else { "/no-roundtrip" })
            }
            Err(_) => "ok/unserialisable".into(),
        },
        Err(e) => format!("err:{}", variant(&e)),
    }
}

type HdrFn = fn(&actix_http::Request) -> String;

/// What the framework and applications do with a parsed header: the derived computations.
fn hdr_use(name: &str, req: &actix_http::Request) -> &'static str {
    use wh::Header as _;
    match name {
        "Accept" => {
            if let Ok(a) = wh::Accept::parse(req) {
                let _ = (a.preference(), a.ranked().len(), a.to_string().len());
                return "+use";
            }
        }
        "AcceptEncoding" => {
            if let Ok(a) = wh::AcceptEncoding::parse(req) {
                let sup = [wh::Encoding::gzip(), wh::Encoding::brotli(), wh::Encoding::identity()];
                let _ = (a.preference().is_some(), a.ranked().len(), a.negotiate(sup.iter()).is_some(), a.negotiate([].iter()).is_some(), a.to_string().len());
                return "+use";
            }
        }
        "AcceptLanguage" => {
            if let Ok(a) = wh::AcceptLanguage::parse(req) {
                let _ = (a.preference(), a.ranked().len(), a.to_string().len());
                return "+use";
            }
        }
        "AcceptCharset" => {
            if let Ok(a) = wh::AcceptCharset::parse(req) {
                let _ = a.to_string().len();
                return "+use";
            }
        }
        "Range" => {
            if let Ok(r) = wh::Range::parse(req) {
                let _ = r.to_string().len();
                if let wh::Range::Bytes(specs) = &r {
                    for sp in specs.iter().take(64) {
                        for len in [0u64, 1, 2, 100_000, u64::MAX - 1, u64::MAX] {
                            if let Some((a, b)) = sp.to_satisfiable_range(len) {
                                if a > b || b >= len {
                                    return "bad-satisfiable-range";
                                }
                            }
                        }
                    }
                }
                return "+use";
            }
        }
        "ContentDisposition" => {
            if let Ok(cd) = wh::ContentDisposition::parse(req) {
                let _ = (cd.get_name().map(str::len), cd.get_filename().map(str::len), cd.get_filename_ext().map(|e| e.value.len()), cd.get_unknown("size").map(str::len), cd.get_unknown_ext("x").is_some());
                let _ = (cd.is_inline(), cd.is_attachment(), cd.is_form_data(), cd.is_ext("x"), cd.to_string().len());
                return "+use";
            }
        }
        "CacheControl" => {
            if let Ok(cc) = wh::CacheControl::parse(req) {
                let _ = (cc.0.len(), cc.to_string().len());
                return "+use";
            }
        }
        "ContentRange" => {
            if let Ok(cr) = wh::ContentRange::parse(req) {
                let _ = cr.to_string().len();
                return "+use";
            }
        }
        "IfRange" => {
            if let Ok(v) = wh::IfRange::parse(req) {
                let _ = v.to_string().len();
                return "+use";
            }
        }
        "ContentType" => {
            if let Ok(v) = wh::ContentType::parse(req) {
                let _ = (v.0.type_().as_str().len(), v.0.params().count(), v.0.get_param("charset").is_some(), v.to_string().len());
                return "+use";
            }
        }
        _ => {}
    }
    ""
}

fn typed_headers() -> Vec<(&'static str, HeaderName, HdrFn, &'static [&'static str])> {
    const DATES: &[&str] = &["Sun, 06 Nov 1994 08:49:37 GMT", "Sunday, 06-Nov-94 08:49:37 GMT", "Sun Nov  6 08:49:37 1994", "Thu, 01 Jan 1970 00:00:00 GMT", "Fri, 31 Dec 9999 23:59:59 GMT"];
    const TAGS: &[&str] = &["*", "\"xyzzy\"", "W/\"xyzzy\"", "\"xyzzy\", \"r2d2xxxx\", W/\"c3piozzzz\"", "\"\"", "W/\"\", \"a\""];
    vec![
        ("Accept", wh::ACCEPT, hdr_outcome::<wh::Accept> as HdrFn, &["text/html, application/xhtml+xml;q=0.9, */*;q=0.8", "audio/*; q=0.2, audio/basic", "text/plain; charset=utf-8; q=0.5", "*/*"]),
        ("AcceptCharset", wh::ACCEPT_CHARSET, hdr_outcome::<wh::AcceptCharset> as HdrFn, &["iso-8859-5, unicode-1-1;q=0.8", "utf-8", "*;q=0.1, us-ascii"]),
        ("AcceptEncoding", wh::ACCEPT_ENCODING, hdr_outcome::<wh::AcceptEncoding> as HdrFn, &["gzip;q=1.0, identity; q=0.5, *;q=0", "br, zstd;q=0.999, deflate", "compress, gzip", "*"]),
        ("AcceptLanguage", wh::ACCEPT_LANGUAGE, hdr_outcome::<wh::AcceptLanguage> as HdrFn, &["da, en-gb;q=0.8, en;q=0.7", "en-US", "*", "zh-Hant-TW;q=0.3, x-private"]),
        ("Allow", wh::ALLOW, hdr_outcome::<wh::Allow> as HdrFn, &["GET, HEAD, PUT", "OPTIONS", "GET,POST,M-SEARCH"]),
        ("CacheControl", wh::CACHE_CONTROL, hdr_outcome::<wh::CacheControl> as HdrFn, &["no-cache, max-age=3600, private", "s-maxage=10, foo=\"bar\", min-fresh=0", "max-stale=4294967295, no-store", "public, must-revalidate, ext"]),
        (
            "ContentDisposition",
            wh::CONTENT_DISPOSITION,
            hdr_outcome::<wh::ContentDisposition> as HdrFn,
            &[
                "attachment; filename=\"foo.txt\"",
                "form-data; name=\"field\"; filename=\"a \\\"b\\\" c.png\"",
                "attachment; filename*=UTF-8''%e2%82%ac%20rates; filename=\"x\"",
                "inline",
                "attachment; filename*=iso-8859-1'en'%A3%20rates; size=12; unknown=token",
                "form-data; name=upload; filename=file.bin",
            ],
        ),
        ("ContentLanguage", wh::CONTENT_LANGUAGE, hdr_outcome::<wh::ContentLanguage> as HdrFn, &["en, fr-CA", "mi", "de-DE;q=0.5"]),
        ("ContentLength", wh::CONTENT_LENGTH, hdr_outcome::<wh::ContentLength> as HdrFn, &["1234", "0", "18446744073709551615"]),
        ("ContentRange", wh::CONTENT_RANGE, hdr_outcome::<wh::ContentRange> as HdrFn, &["bytes 0-499/1234", "bytes */1234", "bytes 0-499/*", "custom 1-2/3", "bytes 500-999/1000"]),
        ("ContentType", wh::CONTENT_TYPE, hdr_outcome::<wh::ContentType> as HdrFn, &["text/html; charset=utf-8", "multipart/form-data; boundary=\"x y\"", "application/json", "image/svg+xml;a=b;c=\"d;e\""]),
        ("Date", wh::DATE, hdr_outcome::<wh::Date> as HdrFn, DATES),
        ("ETag", wh::ETAG, hdr_outcome::<wh::ETag> as HdrFn, &["\"xyzzy\"", "W/\"xyzzy\"", "\"\"", "W/\"a b\""]),
        ("Expires", wh::EXPIRES, hdr_outcome::<wh::Expires> as HdrFn, DATES),
        ("IfMatch", wh::IF_MATCH, hdr_outcome::<wh::IfMatch> as HdrFn, TAGS),
        ("IfModifiedSince", wh::IF_MODIFIED_SINCE, hdr_outcome::<wh::IfModifiedSince> as HdrFn, DATES),
        ("IfNoneMatch", wh::IF_NONE_MATCH, hdr_outcome::<wh::IfNoneMatch> as HdrFn, TAGS),
        ("IfRange", wh::IF_RANGE, hdr_outcome::<wh::IfRange> as HdrFn, &["\"xyzzy\"", "W/\"x\"", "Sun, 06 Nov 1994 08:49:37 GMT", "Sunday, 06-Nov-94 08:49:37 GMT"]),
        ("IfUnmodifiedSince", wh::IF_UNMODIFIED_SINCE, hdr_outcome::<wh::IfUnmodifiedSince> as HdrFn, DATES),
        ("LastModified", wh::LAST_MODIFIED, hdr_outcome::<wh::LastModified> as HdrFn, DATES),
        ("Range", wh::RANGE, hdr_outcome::<wh::Range> as HdrFn, &["bytes=0-499", "bytes=500-999,-5,7-", "bytes=-500", "bytes=9500-", "other=1-2", "bytes=0-0,-1", "bytes= 1 - 2 , 3-"]),
    ]
}

thread_local! {
    static HDRS: Vec<(&'static str, HeaderName, HdrFn, &'static [&'static str])> = typed_headers();
}

fn exec_hdr(c: &Case) -> Res {
    let name = &c.ep[4..];
    let found = HDRS.with(|h| h.iter().find(|x| x.0 == name).map(|x| (x.1.clone(), x.2)));
    let Some((hn, f)) = found else { return Res::Out("unknown-header".into()) };
    let lines = value_lines(&c.data);
    // ContentLength asserts two preconditions its source names ("decoder prevents this case",
    // "decoder prevents multiple CL headers"): the h1 decoder (server and client side) refuses a
    // Content-Length that starts with '+' or is repeated before a typed parser can see it
    if name == "ContentLength" && (lines.len() != 1 || lines[0].as_bytes().starts_with(b"+")) {
        return Res::Out("refused-by-transport-decoder".into());
    }
    let n = lines.len();
    let req = msg_with(&hn, lines);
    match guard(|| (f(&req), hdr_use(name, &req))) {
        Ok((_, "bad-satisfiable-range")) => fail("ill-formed-output", "hdr:Range/to_satisfiable_range", "to_satisfiable_range returned a range outside the representation"),
        Ok((o, u)) => Res::Out(format!("{o}{}{u}", if n > 1 { "/multi" } else { "" })),
        Err(p) => Res::Panic(p),
    }
}

const CONNINFO_SEEDS: &[&str] = &[
    "/\nForwarded: for=192.0.2.60;proto=http;by=203.0.113.43;host=example.com",
    "/\nForwarded: for=\"[2001:db8:cafe::17]:4711\", for=198.51.100.17\nHost: a.test:8080",
    "/x\nX-Forwarded-For: 203.0.113.195, 2001:db8::1, 150.172.238.178\nX-Forwarded-Host: id42.example-cdn.com\nX-Forwarded-Proto: https",
    "/\nForwarded: For=\"_gazonk\";Proto=https ; Host = \"h\" \nForwarded: for=unknown",
    "http://abs.example:81/p?q\nHost: rust-lang.org",
    "/\nForwarded: for=[::1]:80, for=a;;;=,=;for=;host=;proto=",
];

fn exec_conninfo(c: &Case) -> Res {
    let (uri, hs) = parse_reqtext(&c.data);
    let peer = c.v & 1 == 1;
    let r = guard(|| with_req(0, &uri, hs, peer, |req| {
        let ci = req.connection_info();
        let a = ci.realip_remote_addr().map(|s| s.len()).unwrap_or(0);
        let shape = format!("host{}/scheme-{}/{}", if ci.host().is_empty() { "-empty" } else { "" }, if matches!(ci.scheme(), "http" | "https") { "std" } else { "other" }, if a == 0 { "noip" } else { "ip" });
        drop(ci);
        // HttpRequest::full_url is left out: it documents a panic for a malformed host (like url_for)
        let fu = "-";
        let ext = ready(actix_web::dev::ConnectionInfo::extract(req)).is_some();
        let pa = ready(actix_web::dev::PeerAddr::extract(req)).map(|r| r.is_ok()).unwrap_or(false);
        format!("{shape}/{fu}/{}{}", if ext { "x" } else { "-" }, if pa { "p" } else { "" })
    }));
    match r {
        Ok(o) => Res::Out(o),
        Err(p) => Res::Panic(p),
    }
}

const COOKIE_SEEDS: &[&str] = &["a=b", "sid=31d4d96e407aad42; lang=en-US", "name=%E2%82%AC%20x; other=\"quoted value\"", "a=b\nc=d; e=f", "=noname; ; ;x", "k=v; Path=/; Secure; HttpOnly; Max-Age=10"];

fn exec_cookies(c: &Case) -> Res {
    let hs: Vec<(HeaderName, HeaderValue)> = value_lines(&c.data).into_iter().map(|v| (wh::COOKIE, v)).collect();
    let r = guard(|| with_req(0, "/", hs, false, |req| {
        let a = match req.cookies() {
            Ok(v) => format!("ok{}", v.len().min(3)),
            Err(e) => format!("err:{}", variant(&e)),
        };
        let b = match req.cookies_raw() {
            Ok(v) => format!("raw{}", v.len().min(3)),
            Err(e) => format!("rawerr:{}", variant(&e)),
        };
        let names = ["a", "sid", "name", "", "k"];
        let hit = names.iter().filter(|n| req.cookie(n).is_some() || req.cookie_raw(n).is_some()).count();
        format!("{a}/{b}/{}", if hit > 0 { "hit" } else { "miss" })
    }));
    match r {
        Ok(o) => Res::Out(o),
        Err(p) => Res::Panic(p),
    }
}

const MSG_SEEDS: &[&str] = &[
    "/\nContent-Type: text/html; charset=ISO-8859-2\nTransfer-Encoding: gzip, chunked",
    "/\nContent-Type: application/json\nTransfer-Encoding: chunked\nConnection: keep-alive, Upgrade\nUpgrade: websocket",
    "/\nContent-Type: multipart/form-data; boundary=----x\nContent-Encoding: br\nExpect: 100-continue",
    "/\nContent-Type: text/plain; charset=\"utf-8\"; x=y\nContent-Encoding: zstd, gzip\nConnection: close",
];

fn exec_msg(c: &Case) -> Res {
    let (uri, hs) = parse_reqtext(&c.data);
    let r = guard(|| with_req(0, &uri, hs, false, |req| {
        let ct = req.content_type().len().min(1);
        let mt = match req.mime_type() {
            Ok(Some(_)) => "mime",
            Ok(None) => "nomime",
            Err(_) => "mime-err",
        };
        let enc = match req.encoding() {
            Ok(_) => "enc",
            Err(_) => "enc-err",
        };
        let ch = match req.chunked() {
            Ok(true) => "chunked",
            Ok(false) => "plain",
            Err(_) => "te-err",
        };
        let ce = match <actix_http::ContentEncoding as wh::Header>::parse(req) {
            Ok(_) => "ce",
            Err(_) => "ce-err",
        };
        let h = req.head();
        format!("{mt}/{ch}/ct{ct}/{enc}/{ce}/{:?}/{}", h.connection_type(), if h.upgrade() { "up" } else { "noup" })
    }));
    match r {
        Ok(o) => Res::Out(o),
        Err(p) => Res::Panic(p),
    }
}

// ------------------------------------------------------------------------------------------------
// WebSocket: handshake on header sets, codec in both roles, raw parser
// ------------------------------------------------------------------------------------------------

const WSHS_SEEDS: &[&str] = &[
    "/chat\nHost: server.example.com\nUpgrade: websocket\nConnection: Upgrade\nSec-WebSocket-Key: dGhlIHNhbXBsZSBub25jZQ==\nSec-WebSocket-Version: 13",
    "/\nUpgrade: WebSocket, h2c\nConnection: keep-alive, upgrade\nSec-WebSocket-Key: x3JJHMbDL1EzLkh9GBhXDw==\nSec-WebSocket-Version: 8\nSec-WebSocket-Protocol: chat, superchat",
    "/\nUpgrade: websocket\nConnection: upgrade\nSec-WebSocket-Key: \nSec-WebSocket-Version: 13, 7",
];

fn exec_wshs(c: &Case) -> Res {
    let (uri, hs) = parse_reqtext(&c.data);
    let mut head = RequestHead::default();
    head.method = if c.v & 1 == 1 { Method::POST } else { Method::GET };
    head.uri = Uri::try_from(uri.as_str()).unwrap_or_default();
    for (n, v) in hs {
        head.headers_mut().append(n, v);
    }
    let r = guard(|| {
        let v = ws::verify_handshake(&head);
        let resp = ws::handshake(&head).map(|mut b| b.finish());
        // handshake_response() alone requires a verified request (it unwraps the key): not called
        let key_len = resp.as_ref().ok().and_then(|r| r.headers().get("sec-websocket-accept").map(|v| v.len())).unwrap_or(0);
        match (v, resp) {
            (Ok(()), Ok(r)) => format!("ok:{}:{key_len}", r.status().as_u16()),
            (Err(e), Err(_)) => format!("err:{}:{key_len}", variant(&e)),
            _ => "verify-and-handshake-disagree".into(),
        }
    });
    match r {
        Ok(o) if o == "verify-and-handshake-disagree" => fail("ill-formed-output", "wshs", "verify_handshake and handshake disagree"),
        Ok(o) => Res::Out(o),
        Err(p) => Res::Panic(p),
    }
}

/// `max_size` is configuration: the parser reserves up to that much on a peer's announcement, so an
/// application that configures usize::MAX has asked for the allocation failure it gets
const WS_SIZES: [Option<usize>; 6] = [None, Some(0), Some(125), Some(65_536), Some(1 << 20), Some(126)];

fn ws_codec(v: u32) -> (ws::Codec, bool, usize) {
    let server = v & 1 == 0;
    let ms = WS_SIZES[((v >> 1) as usize) % WS_SIZES.len()];
    let mut c = ws::Codec::new();
    if let Some(m) = ms {
        c = c.max_size(m);
    }
    if !server {
        c = c.client_mode();
    }
    (c, server, ms.unwrap_or(65_536))
}

/// Decode loop shared by all `tokio_util` decoders: after every segment call `decode` until it asks
/// for more input.  `on_item` returns false to stop (consumer's choice).  Err(Res) is a verdict.
fn decode_loop<D: Decoder>(
    dec: &mut D,
    c: &Case,
    buf: &mut BytesMut,
    mut on_item: impl FnMut(&mut D, D::Item, &mut BytesMut) -> Result<bool, Res>,
) -> Result<(u64, Option<D::Error>), Res> {
    let cap = c.data.len() as u64 + 16;
    let mut items = 0u64;
    let mut idle = 0u64;
    for seg in c.segments() {
        buf.extend_from_slice(seg);
        loop {
            let before = buf.len();
            match guard(|| dec.decode(buf)) {
                Err(p) => return Err(Res::Panic(p)),
                Ok(Err(e)) => return Ok((items, Some(e))),
                Ok(Ok(Some(it))) => {
                    items += 1;
                    if items > cap {
                        return Err(fail("unbounded-loop", "decode/items", format!("decoder produced {items} items from {} input bytes without running out of input", c.data.len())));
                    }
                    if !on_item(dec, it, buf)? {
                        return Ok((items, None));
                    }
                }
                Ok(Ok(None)) => {
                    if buf.len() == before {
                        break;
                    }
                    // "need more input" while the buffer changed: progress claimed; call again
                    idle += 1;
                    if idle > cap {
                        return Err(fail("unbounded-loop", "decode/none", format!("decoder kept returning Ok(None) while changing its buffer ({idle} times, {} input bytes)", c.data.len())));
                    }
                }
            }
        }
    }
    Ok((items, None))
}

fn exec_ws(c: &Case) -> Res {
    let (mut codec, _server, _ms) = ws_codec(c.v);
    let mut buf = BytesMut::new();
    let mut delivered = 0usize;
    let mut kinds = BTreeSet::new();
    let mut out = BytesMut::new();
    let r = decode_loop(&mut codec, c, &mut buf, |codec, f, _| {
        let (k, n, echo) = match f {
            ws::Frame::Text(b) => ("text", b.len(), Some(ws::Message::Binary(b))),
            ws::Frame::Binary(b) => ("binary", b.len(), Some(ws::Message::Binary(b))),
            ws::Frame::Continuation(i) => {
                let n = match &i {
                    ws::Item::FirstText(b) | ws::Item::FirstBinary(b) | ws::Item::Continue(b) | ws::Item::Last(b) => b.len(),
                };
                ("cont", n, None)
            }
            ws::Frame::Ping(b) => ("ping", b.len(), Some(ws::Message::Pong(b))),
            ws::Frame::Pong(b) => ("pong", b.len(), None),
            ws::Frame::Close(r) => ("close", 0, Some(ws::Message::Close(r))),
        };
        kinds.insert(k);
        delivered += n;
        if let Some(m) = echo {
            out.clear();
            match guard(|| codec.encode(m, &mut out)) {
                Err(p) => return Err(Res::Panic(p)),
                Ok(_) => {}
            }
            if out.len() < n {
                return Err(fail("ill-formed-output", "ws/echo-short", format!("echo of a {n}-byte payload encoded into {} bytes", out.len())));
            }
        }
        Ok(true)
    });
    match r {
        Err(res) => res,
        Ok((items, err)) => {
            if delivered > c.data.len() {
                return fail("ill-formed-output", "ws/delivered-more-than-fed", format!("{delivered} payload bytes delivered from {} input bytes", c.data.len()));
            }
            let k: Vec<&str> = kinds.into_iter().collect();
            Res::Out(format!("{}:{}:{}", match &err { Some(e) => format!("err-{}", variant(e)), None => "open".into() }, items.min(3), k.join("+")))
        }
    }
}

fn exec_wsparse(c: &Case) -> Res {
    let (_, server, ms) = ws_codec(c.v);
    let mut buf = BytesMut::new();
    let cap = c.data.len() + 16;
    let mut n = 0;
    let mut last = "open".to_string();
    'o: for seg in c.segments() {
        buf.extend_from_slice(seg);
        loop {
            let before = buf.len();
            match guard(|| ws::Parser::parse(&mut buf, server, ms)) {
                Err(p) => return Res::Panic(p),
                Ok(Err(e)) => {
                    last = format!("err-{}", variant(&e));
                    break 'o;
                }
                Ok(Ok(Some((_fin, op, pl)))) => {
                    n += 1;
                    if let (ws::OpCode::Close, Some(p)) = (op, &pl) {
                        if let Err(p) = guard(|| ws::Parser::parse_close_payload(p)) {
                            return Res::Panic(p);
                        }
                    }
                    if n > cap {
                        return fail("unbounded-loop", "wsparse/items", format!("{n} frames from {} bytes", c.data.len()));
                    }
                }
                Ok(Ok(None)) => {
                    if buf.len() == before {
                        break;
                    }
                    n += 1;
                    if n > cap {
                        return fail("unbounded-loop", "wsparse/none", "Ok(None) with a changing buffer for ever");
                    }
                }
            }
        }
    }
    Res::Out(format!("{last}:{}", n.min(3)))
}

fn ws_frame(rng: &mut Rng, server: bool, in_frag: &mut bool) -> Vec<u8> {
    let (op, fin) = if rng.chance(5, 6) {
        match rng.below(10) {
            0 => (rf::OP_PING, true),
            1 => (rf::OP_PONG, true),
            2 => (rf::OP_CLOSE, true),
            _ if *in_frag => (rf::OP_CONT, rng.chance(1, 2)),
            _ => (if rng.chance(1, 2) { rf::OP_TEXT } else { rf::OP_BINARY }, rng.chance(2, 3)),
        }
    } else {
        ((rng.next() % 16) as u8, rng.chance(1, 2))
    };
    if op == rf::OP_CONT && fin {
        *in_frag = false;
    } else if (op == rf::OP_TEXT || op == rf::OP_BINARY) && !fin {
        *in_frag = true;
    }
    let len = match rng.below(16) {
        0 => 125,
        1 => 126,
        2 => 127,
        3 => rng.range(128, 400),
        4 | 5 => 0,
        6 => 2,
        _ => rng.range(0, 40),
    };
    let payload: Vec<u8> = if op == rf::OP_CLOSE && len >= 2 {
        let mut p = (*rng.pick(&[1000u16, 1001, 1005, 1006, 1015, 2999, 3000, 4999, 0, 65535])).to_be_bytes().to_vec();
        p.extend((0..len - 2).map(|_| *rng.pick(b"abc \xc3\xa9")));
        p
    } else if op == rf::OP_TEXT {
        (0..len).map(|_| *rng.pick(b"hello, world \xe2\x82\xac")).collect()
    } else {
        rng.bytes(len)
    };
    let mask = if server != rng.chance(1, 20) { Some([rng.next() as u8, rng.next() as u8, rng.next() as u8, rng.next() as u8]) } else { None };
    let enc = match rng.below(20) {
        0 => rf::LenEnc::Ext16,
        1 => rf::LenEnc::Ext64,
        _ => rf::LenEnc::Minimal,
    };
    rf::encode(&rf::RFrame { fin, rsv: if rng.chance(1, 30) { rng.range(1, 7) as u8 } else { 0 }, opcode: op, mask, payload }, enc)
}

fn ws_seed(rng: &mut Rng, server: bool) -> Vec<u8> {
    let mut out = vec![];
    let mut in_frag = false;
    for _ in 0..rng.range(1, 5) {
        out.extend(ws_frame(rng, server, &mut in_frag));
    }
    out
}

/// 64-bit / 16-bit / 7-bit length fields at their extremes, with and without payload behind
const WS_LENS: &[u64] = &[0, 1, 125, 126, 127, 128, 65_535, 65_536, 65_537, (1 << 31) - 1, 1 << 31, (1 << 32) - 1, 1 << 32, (1 << 63) - 1, 1 << 63, u64::MAX - 13, u64::MAX - 1, u64::MAX];

fn ws_length_grid() -> Vec<(String, Vec<u8>)> {
    let mut out = vec![];
    for &op in &[rf::OP_CONT, rf::OP_TEXT, rf::OP_BINARY, rf::OP_CLOSE, rf::OP_PING, rf::OP_PONG, 3u8, 15] {
        for &len in WS_LENS {
            for enc in [rf::LenEnc::Minimal, rf::LenEnc::Ext16, rf::LenEnc::Ext64] {
                for masked in [true, false] {
                    for tail in [0usize, 1, 200] {
                        let mut b = rf::header(true, 0, op, if masked { Some([1, 2, 3, 4]) } else { None }, len, enc);
                        b.extend(std::iter::repeat(0x41).take(tail));
                        out.push((format!("len-grid/{}", if len > 1 << 20 { "huge" } else { "small" }), b));
                    }
                }
            }
        }
    }
    out
}

// ------------------------------------------------------------------------------------------------
// router + Path<T> / Query<T> deserialisation (no runtime)
// ------------------------------------------------------------------------------------------------

#[derive(Deserialize, Debug)]
#[allow(dead_code)]
struct PNameId {
    name: String,
    id: u32,
}
#[derive(Deserialize, Debug)]
#[allow(dead_code)]
struct PAb {
    a: String,
    b: Option<i64>,
}
#[derive(Deserialize, Debug)]
#[serde(rename_all = "lowercase")]
#[allow(dead_code)]
enum Color {
    Red,
    Green,
    Blue,
}
#[derive(Deserialize, Debug)]
#[allow(dead_code)]
struct QMain {
    id: u32,
    name: String,
}
#[derive(Deserialize, Debug)]
#[allow(dead_code)]
struct QOpt {
    id: Option<i64>,
    big: Option<u64>,
    small: Option<u8>,
    f: Option<f64>,
    flag: Option<bool>,
    c: Option<char>,
    color: Option<Color>,
    #[serde(default)]
    name: String,
}
#[derive(Deserialize, Debug)]
#[allow(dead_code)]
struct QFlat {
    id: i8,
    #[serde(flatten)]
    rest: HashMap<String, String>,
}

const ROUTER_PATTERNS: &[&str] = &["/a/{v}", "/b/{a}/{b}", "/c/{name}/{id}", "/t/{tail}*", "/r/{x:\\d+}/{y:[a-z]*}", "/s/{sx}", "/{a}/{b}/{c}/{d}/{e}/{f}", "/u/{v:.*}", "/static/path"];

thread_local! {
    static RDEFS: Vec<actix_router::ResourceDef> = {
        let mut v: Vec<actix_router::ResourceDef> = ROUTER_PATTERNS.iter().map(|p| actix_router::ResourceDef::new(*p)).collect();
        v.push(actix_router::ResourceDef::prefix("/s/{sx}"));
        v.push(actix_router::ResourceDef::prefix("/a"));
        v.push(actix_router::ResourceDef::new(["/m1/{id}", "/m2/{id}/{k}", "/a/{v}/{w}"]));
        v.push(actix_router::ResourceDef::prefix(["/p1/{x}", "/{x}/p2"]));
        v.push(actix_router::ResourceDef::root_prefix("{lang}/docs"));
        v
    };
}

fn load_all<T: actix_router::ResourcePath>(p: &actix_router::Path<T>) -> String {
    let mut o = String::new();
    macro_rules! l {
        ($t:ty, $n:expr) => {
            o.push_str(if p.load::<$t>().is_ok() { concat!($n, "+") } else { concat!($n, "-") });
        };
    }
    l!(u8, "u8");
    l!(u32, "u32");
    l!(i64, "i64");
    l!(String, "s");
    l!((String, u32), "t2");
    l!((String, String, String), "t3");
    l!(PNameId, "st");
    l!(PAb, "ab");
    l!(Color, "e");
    l!(Vec<String>, "vs");
    l!(Vec<u32>, "vu");
    l!(HashMap<String, String>, "m");
    l!(f64, "f");
    l!(bool, "b");
    l!(char, "c");
    l!((), "unit");
    o
}

const URI_SEEDS: &[&str] = &[
    "/a/123",
    "/a/255",
    "/b/name/42",
    "/c/alice/7",
    "/t/x/y/z.txt",
    "/r/123/abc",
    "/s/one/two/end",
    "/s/one/two",
    "/n//v1//x/w1/",
    "/n2/v1/x//w1",
    "/ns//caf%C3%A9//two/",
    "/ns/a//b///c/d//",
    "/n3//v//w//x",
    "/m2/5/k",
    "/m1/77",
    "/a/%31%32",
    "/b/na%2Fme/42",
    "/a/caf%C3%A9",
    "/a/red",
    "/b/%E2%82%AC/4294967295",
    "/one/two/three/four/five/six",
    "/u/any/thing?x=1",
    "/static/path",
    "/a/1?id=5&name=x",
    "/q?id=5&name=alice&big=18446744073709551615&small=255&f=1.5&flag=true&c=x&color=red",
    "/q?id=-9223372036854775808&name=%E2%82%AC+x&a=1&a=2&b[]=3",
    "/q?id=1&name=a%26b%3Dc&extra=&=novalue&novalue",
    "/en/docs/index",
    "/g?id=1\nHost: a.test:8443",
    "https://a.test/g\nHost: b.test\nX-K: v",
    "/g\nHost: [::1]:99999",
];

fn exec_router(c: &Case) -> Res {
    let uri = clean_uri(&c.data);
    let Ok(u) = Uri::try_from(uri.as_str()) else { return Res::Out("uri-rejected".into()) };
    let r = guard(|| {
        RDEFS.with(|defs| {
            let mut matched = 0u32;
            let mut loads = String::new();
            let mut bad = None;
            for (i, d) in defs.iter().enumerate() {
                let mut p = actix_router::Path::new(actix_router::Url::new(u.clone()));
                if !d.capture_match_info(&mut p) {
                    continue;
                }
                matched |= 1 << i;
                let whole = p.as_str().len();
                let un = p.unprocessed().len();
                let mut total = 0;
                for (k, v) in p.iter() {
                    total += v.len();
                    if p.get(k).is_none() {
                        bad = Some(format!("segment {k} listed but get() is None"));
                    }
                }
                if un > whole || total > whole * (p.segment_count().max(1)) {
                    bad = Some(format!("unprocessed {un} / captured {total} bytes of a {whole}-byte path"));
                }
                let _ = p.query("v").len();
                // a scope-like second match on the rest
                if d.is_prefix() {
                    for d2 in defs.iter().take(3) {
                        let mut p2 = p.clone();
                        if d2.capture_match_info(&mut p2) {
                            let _ = load_all(&p2);
                        }
                    }
                }
                if loads.is_empty() {
                    loads = load_all(&p);
                }
                let _ = d.find_match(u.path());
                let _ = d.is_match(u.path());
            }
            (matched, loads, bad)
        })
    });
    match r {
        Err(p) => Res::Panic(p),
        Ok((_, _, Some(bad))) => fail("ill-formed-output", "router/captures", bad),
        Ok((m, loads, None)) => Res::Out(format!("m{m:x}:{loads}")),
    }
}

fn query_all(qs: &str) -> String {
    let mut o = String::new();
    macro_rules! q {
        ($t:ty, $n:expr) => {
            o.push_str(match web::Query::<$t>::from_query(qs) {
                Ok(_) => concat!($n, "+"),
                Err(_) => concat!($n, "-"),
            });
        };
    }
    q!(QMain, "main");
    q!(QOpt, "opt");
    q!(QFlat, "flat");
    q!(HashMap<String, String>, "map");
    q!(Vec<(String, String)>, "pairs");
    q!(HashMap<String, u64>, "mapu");
    q!(Vec<(String, i32)>, "pairsi");
    q!((), "unit");
    o
}

fn exec_query(c: &Case) -> Res {
    // the query reaches the extractor only through a parsed request target
    let mut d = b"/q?".to_vec();
    d.extend_from_slice(&c.data);
    let uri = clean_uri(&d);
    let r = guard(|| with_req(0, &uri, vec![], false, |req| {
        let a = query_all(req.query_string());
        let b = ready(web::Query::<QMain>::extract(req)).map(|r| r.is_ok()).unwrap_or(false);
        let c2 = ready(web::Query::<QOpt>::extract(req)).map(|r| r.is_ok()).unwrap_or(false);
        format!("{a}{}{}", if b { "X" } else { "x" }, if c2 { "O" } else { "o" })
    }));
    match r {
        Ok(o) => Res::Out(o),
        Err(p) => Res::Panic(p),
    }
}

// ------------------------------------------------------------------------------------------------
// multipart
// ------------------------------------------------------------------------------------------------

struct ChunkStream(VecDeque<Bytes>, bool);

impl Stream for ChunkStream {
    type Item = Result<Bytes, PayloadError>;
    fn poll_next(mut self: Pin<&mut Self>, _: &mut Context<'_>) -> Poll<Option<Self::Item>> {
        match self.0.pop_front() {
            Some(b) => Poll::Ready(Some(Ok(b))),
            None if self.1 => {
                self.1 = false;
                Poll::Ready(Some(Err(PayloadError::Incomplete(None))))
            }
            None => Poll::Ready(None),
        }
    }
}

#[derive(Default)]
struct MpObs {
    fields: usize,
    bytes: usize,
    chunks: u64,
    end: String,
}

async fn mp_consume(mut mp: actix_multipart::Multipart, obs: Rc<RefCell<MpObs>>, chunk_cap: u64, drop_mode: u32) {
    loop {
        if obs.borrow().fields >= 64 {
            obs.borrow_mut().end = "cap-fields".into();
            return;
        }
        match mp.next().await {
            None => {
                obs.borrow_mut().end = "clean".into();
                return;
            }
            Some(Err(e)) => {
                obs.borrow_mut().end = format!("err-{}", variant(&e));
                return;
            }
            Some(Ok(mut field)) => {
                let nf = {
                    let mut o = obs.borrow_mut();
                    o.fields += 1;
                    o.fields
                };
                let _ = (field.name().map(|s| s.len()), field.content_type().map(|m| m.essence_str().len()), field.content_disposition().map(|cd| cd.get_filename().map(|f| f.len())), field.headers().len());
                if drop_mode == 1 && nf % 2 == 1 {
                    continue;
                }
                loop {
                    {
                        let mut o = obs.borrow_mut();
                        o.chunks += 1;
                        if o.chunks > chunk_cap {
                            o.end = "cap-chunks".into();
                            return;
                        }
                    }
                    match field.next().await {
                        None => break,
                        Some(Ok(b)) => {
                            obs.borrow_mut().bytes += b.len();
                            if drop_mode == 2 {
                                break;
                            }
                        }
                        Some(Err(e)) => {
                            obs.borrow_mut().end = format!("field-err-{}", variant(&e));
                            return;
                        }
                    }
                }
            }
        }
    }
}

fn exec_multipart(c: &Case) -> Res {
    let chunks: VecDeque<Bytes> = c.segments().into_iter().map(Bytes::copy_from_slice).collect();
    let nchunks = chunks.len() as u64;
    let stream = ChunkStream(chunks, c.v & 4 != 0);
    let ct = clean_value(&c.aux);
    let obs = Rc::new(RefCell::new(MpObs::default()));
    let drop_mode = c.v & 3;
    let built = guard(|| {
        if c.v & 8 != 0 {
            let hs = if c.aux.is_empty() { vec![] } else { vec![(wh::CONTENT_TYPE, ct.clone())] };
            let boxed: Pin<Box<dyn Stream<Item = Result<Bytes, PayloadError>>>> = Box::pin(stream);
            let mut pl = Payload::from(boxed);
            with_req(1, "/", hs, false, |req| ready(actix_multipart::Multipart::from_request(req, &mut pl)).and_then(|r| r.ok()))
        } else {
            let mut h = HeaderMap::new();
            if !c.aux.is_empty() {
                h.insert(wh::CONTENT_TYPE, ct.clone());
            }
            Some(actix_multipart::Multipart::new(&h, stream))
        }
    });
    let mp = match built {
        Err(p) => return Res::Panic(p),
        Ok(None) => return Res::Out("extractor-not-ready".into()),
        Ok(Some(mp)) => mp,
    };
    let chunk_cap = 4 * (c.data.len() as u64 + nchunks) + 64;
    let poll_cap = 8 * (c.data.len() as u64 + nchunks) + 256;
    let mut d = Driven::new(mp_consume(mp, obs.clone(), chunk_cap, drop_mode));
    let mut stalled = false;
    loop {
        if d.done() {
            break;
        }
        match guard(|| d.poll_if_woken()) {
            Err(p) => return Res::Panic(p),
            Ok(true) => {
                if d.polls > poll_cap {
                    return fail("unbounded-loop", "multipart/self-wake", format!("consumer still waking itself after {} polls on a {}-byte body whose stream is always ready", d.polls, c.data.len()));
                }
            }
            Ok(false) => {
                // Pending with no wake-up although the body stream never returned Pending: C15's
                // business (hang); counted here
                stalled = true;
                break;
            }
        }
    }
    drop(d);
    let o = obs.borrow();
    if o.end == "cap-chunks" {
        return fail("unbounded-loop", "multipart/chunks", format!("field stream yielded more than {chunk_cap} items for a {}-byte body", c.data.len()));
    }
    if o.bytes > c.data.len() {
        return fail("ill-formed-output", "multipart/delivered-more-than-fed", format!("{} content bytes from a {}-byte body", o.bytes, c.data.len()));
    }
    Res::Out(format!("{}:{}f", if stalled { "stalled" } else { o.end.as_str() }, o.fields.min(3)))
}

fn multipart_seed(rng: &mut Rng) -> (Vec<u8>, Vec<u8>) {
    let (boundary, quoted) = mg::gen_boundary(rng);
    let subtype: &'static str = *rng.pick(&["form-data", "form-data", "mixed", "related"]);
    let mut parts = vec![];
    for _ in 0..rng.below(4) {
        let class = *rng.pick(mg::CONTENT_CLASSES);
        let (with_cl, max_len) = (rng.chance(1, 3), *rng.pick(&[0usize, 8, 40, 300]));
        parts.push(mg::gen_part(rng, &boundary, &mg::PartOpts { subtype, with_cl, class, max_len }));
    }
    let b = mg::Body { boundary, subtype, preamble: vec![], parts, final_crlf: rng.chance(3, 4), epilogue: vec![], quote_boundary: quoted };
    (mg::encode(&b).bytes, mg::content_type_header(&b).into_bytes())
}

const MULTIPART_FIXED: &[(&str, &str)] = &[
    ("multipart/form-data; boundary=abc", "--abc\r\nContent-Disposition: form-data; name=\"f\"; filename=\"a.txt\"\r\nContent-Type: text/plain\r\nContent-Length: 5\r\n\r\nhello\r\n--abc\r\nContent-Disposition: form-data; name=\"g\"\r\n\r\n\r\n--abc--\r\n"),
    ("multipart/mixed; boundary=\"b 1\"", "preamble\r\n--b 1\r\nX-A: 1\r\n\r\ndata\r\n--b 1--"),
    ("multipart/form-data; charset=utf-8; boundary=----WebKitFormBoundary7MA4YWxkTrZu0gW", "------WebKitFormBoundary7MA4YWxkTrZu0gW\r\nContent-Disposition: form-data; name=\"n\"\r\n\r\n12\r\n------WebKitFormBoundary7MA4YWxkTrZu0gW--\r\n"),
];

// ------------------------------------------------------------------------------------------------
// HTTP/1 codecs driven directly (need an actix System: the codecs' config owns a date service)
// ------------------------------------------------------------------------------------------------

const H1_FIXED: &[&[u8]] = &[
    b"GET / HTTP/1.1\r\nHost: a\r\n\r\n",
    b"POST /p?x=1 HTTP/1.1\r\nHost: a\r\nContent-Length: 5\r\n\r\nhello",
    b"POST /c HTTP/1.1\r\nHost: a\r\nTransfer-Encoding: chunked\r\n\r\n5\r\nhello\r\n3;ext=1\r\nabc\r\n0\r\nTrailer: x\r\n\r\n",
    b"GET /ws HTTP/1.1\r\nHost: a\r\nUpgrade: websocket\r\nConnection: Upgrade\r\nSec-WebSocket-Key: dGhlIHNhbXBsZSBub25jZQ==\r\nSec-WebSocket-Version: 13\r\n\r\n\x81\x85\x01\x02\x03\x04ignor",
    b"PUT /e HTTP/1.1\r\nHost: a\r\nExpect: 100-continue\r\nContent-Length: 3\r\n\r\nabc",
    b"GET /old HTTP/1.0\r\nConnection: keep-alive\r\n\r\n",
    b"HEAD /h HTTP/1.1\r\nHost: a\r\nConnection: close\r\n\r\n",
    b"OPTIONS * HTTP/1.1\r\nHost: a\r\n\r\n",
    b"CONNECT a:443 HTTP/1.1\r\nHost: a:443\r\n\r\ntunnel bytes",
    b"GET http://a/abs?q HTTP/1.1\r\nHost: b\r\nAccept: */*\r\nCookie: a=b; c=d\r\n\r\n",
    b"GET /1 HTTP/1.1\r\nHost: a\r\n\r\nPOST /2 HTTP/1.1\r\nHost: a\r\nContent-Length: 2\r\n\r\nhiGET /3 HTTP/1.1\r\nHost: a\r\n\r\n",
    b"GET /h2c HTTP/1.1\r\nHost: a\r\nConnection: Upgrade, HTTP2-Settings\r\nUpgrade: h2c\r\nHTTP2-Settings: AAMAAABkAAQCAAAAAAIAAAAA\r\n\r\n",
    b"PRI * HTTP/2.0\r\n\r\nSM\r\n\r\n",
    b"POST /d HTTP/1.1\r\nHost: a\r\nContent-Length: 3\r\nContent-Length: 3\r\n\r\nabc",
    b"GET /fold HTTP/1.1\r\nHost: a\r\nX-Long: one\r\n two\r\n\tthree\r\n\r\n",
    b"POST /z HTTP/1.1\r\nHost: a\r\nTransfer-Encoding: gzip, chunked\r\nContent-Encoding: gzip\r\n\r\n1\r\nx\r\n0\r\n\r\n",
    b"POST /big HTTP/1.1\r\nHost: a\r\nTransfer-Encoding: chunked\r\n\r\nA\r\n0123456789\r\n00000a;q=\"x\\\"y\"\r\n0123456789\r\n0\r\n\r\n",
    b"DELETE /x HTTP/1.1\r\nHost: a\r\nContent-Length: 0\r\nConnection: keep-alive, close\r\n\r\n",
];

fn h1_seed(rng: &mut Rng) -> Vec<u8> {
    if rng.chance(1, 2) {
        return rng.pick(H1_FIXED).to_vec();
    }
    let o = gh1::ReqOpts { force_method: None, allow_http10: true, allow_big: false, allow_head: true, expect_continue: true };
    let mut out = vec![];
    for i in 0..rng.range(1, 3) {
        out.extend(gh1::good_request(rng, i, &o));
        if out.len() > 6000 {
            break;
        }
    }
    out
}

fn exec_h1codec(c: &Case) -> Res {
    let mut codec = h1::Codec::default();
    let mut buf = BytesMut::new();
    let mut out = BytesMut::new();
    let mut heads = 0u32;
    let mut body = 0usize;
    let mut hs_seen = "";
    let r = decode_loop(&mut codec, c, &mut buf, |codec, it, _| {
        match it {
            h1::Message::Item(req) => {
                heads += 1;
                // what an application commonly does with a head: look at the framing helpers,
                // try the WebSocket handshake, answer with values taken from the request
                let step = guard(|| {
                    let head = req.head();
                    let _ = (head.connection_type(), head.upgrade(), req.chunked().is_ok(), req.content_type().len(), req.encoding().is_ok(), req.mime_type().is_ok());
                    let hs = ws::handshake(head).map(|mut b| b.finish()).is_ok();
                    let mut rb = Response::build(if hs { StatusCode::SWITCHING_PROTOCOLS } else { StatusCode::OK });
                    for (i, (n, v)) in head.headers().iter().enumerate().take(8) {
                        rb.insert_header((format!("x-echo-{i}"), v.clone()));
                        if let Ok(hn) = HeaderName::from_bytes(format!("x-{}", n.as_str()).as_bytes()) {
                            rb.append_header((hn, v.clone()));
                        }
                    }
                    if let Ok(v) = HeaderValue::from_str(&head.uri.to_string()) {
                        rb.insert_header(("x-uri", v));
                    }
                    let resp = rb.finish().drop_body();
                    let size = match heads % 3 {
                        0 => BodySize::Sized(2),
                        1 => BodySize::Stream,
                        _ => BodySize::None,
                    };
                    let e1 = codec.encode(h1::Message::Item((resp, size)), &mut out).is_ok();
                    let mut e2 = true;
                    if size != BodySize::None {
                        e2 &= codec.encode(h1::Message::Chunk(Some(Bytes::from_static(b"ok"))), &mut out).is_ok();
                        e2 &= codec.encode(h1::Message::Chunk(None), &mut out).is_ok();
                    }
                    (hs, e1 && e2)
                });
                match step {
                    Err(p) => return Err(Res::Panic(p)),
                    Ok((hs, _)) => {
                        if hs {
                            hs_seen = "+ws";
                        }
                    }
                }
            }
            h1::Message::Chunk(Some(b)) => body += b.len(),
            h1::Message::Chunk(None) => {}
        }
        Ok(true)
    });
    match r {
        Err(res) => res,
        Ok((_, err)) => {
            if body > c.data.len() {
                return fail("ill-formed-output", "h1codec/delivered-more-than-fed", format!("{body} body bytes from {} input bytes", c.data.len()));
            }
            if heads > 0 && !out.starts_with(b"HTTP/1.") {
                return fail("ill-formed-output", "h1codec/encoder", format!("encoded response does not start with a status line: {}", esc_short(&out, 80)));
            }
            Res::Out(format!("{}:{}h{}{}", match &err { Some(e) => format!("err-{}", variant(e)), None => "open".into() }, heads.min(3), if body > 0 { "+body" } else { "" }, hs_seen))
        }
    }
}

const RESP_FIXED: &[&[u8]] = &[
    b"HTTP/1.1 200 OK\r\nContent-Length: 5\r\n\r\nhello",
    b"HTTP/1.1 200 OK\r\nTransfer-Encoding: chunked\r\n\r\n5\r\nhello\r\n1f;x\r\n0123456789012345678901234567890\r\n0\r\n\r\n",
    b"HTTP/1.1 204 No Content\r\nServer: x\r\n\r\n",
    b"HTTP/1.1 304 Not Modified\r\nETag: \"x\"\r\nContent-Length: 10\r\n\r\n",
    b"HTTP/1.0 200 OK\r\n\r\nbody-until-close",
    b"HTTP/1.1 100 Continue\r\n\r\nHTTP/1.1 200 OK\r\nContent-Length: 0\r\n\r\n",
    b"HTTP/1.1 101 Switching Protocols\r\nUpgrade: websocket\r\nConnection: upgrade\r\nSec-WebSocket-Accept: s3pPLMBiTxaQ9kYGzzhZRbK+xOo=\r\n\r\n\x81\x02hi",
    b"HTTP/1.1 200 OK\r\nConnection: close\r\nContent-Type: text/plain; charset=utf-8\r\nSet-Cookie: a=b; Path=/\r\nSet-Cookie: c=d\r\n\r\nabc",
    b"HTTP/1.1 301 Moved Permanently\r\nLocation: http://x/y\r\nContent-Length: 0\r\n\r\n",
    b"HTTP/1.1 200 \r\nContent-Length: 1\r\n\r\nx",
    b"HTTP/1.1 999 Weird\r\nContent-Length: 2\r\nContent-Encoding: gzip\r\n\r\n\x1f\x8b",
    b"HTTP/1.1 200 OK\r\nContent-Length: 1\r\n\r\naHTTP/1.1 404 Not Found\r\nTransfer-Encoding: chunked\r\n\r\n0\r\n\r\n",
    b"HTTP/1.1 200 OK\r\nContent-Length: 3\r\nTransfer-Encoding: chunked\r\n\r\n3\r\nabc\r\n0\r\n\r\n",
    b"HTTP/1.1 206 Partial Content\r\nContent-Range: bytes 0-1/10\r\nContent-Length: 2\r\nKeep-Alive: timeout=5, max=100\r\nConnection: keep-alive\r\n\r\nab",
];

fn exec_client(c: &Case) -> Res {
    let mut codec = h1::ClientCodec::default();
    // the request that was "sent": decides HEAD handling
    let mut head = RequestHead::default();
    head.method = match c.v % 3 {
        0 => Method::GET,
        1 => Method::HEAD,
        _ => Method::POST,
    };
    let mut sent = BytesMut::new();
    if let Err(p) = guard(|| codec.encode(h1::Message::Item((RequestHeadType::Owned(head), BodySize::None)), &mut sent)) {
        return Res::Panic(p);
    }
    enum St {
        Head(h1::ClientCodec),
        Body(h1::ClientPayloadCodec),
    }
    let mut st = St::Head(codec);
    let mut buf = BytesMut::new();
    let cap = c.data.len() as u64 + 16;
    let (mut heads, mut body, mut steps) = (0u32, 0usize, 0u64);
    let mut end = "open".to_string();
    let segs = c.segments();
    let nseg = segs.len();
    'o: for (si, seg) in segs.into_iter().enumerate() {
        buf.extend_from_slice(seg);
        let last = si + 1 == nseg;
        loop {
            steps += 1;
            if steps > 2 * cap + nseg as u64 {
                return fail("unbounded-loop", "client/decode", format!("{steps} decode calls for {} input bytes", c.data.len()));
            }
            let before = buf.len();
            st = match st {
                St::Head(mut cd) => match guard(|| cd.decode(&mut buf)) {
                    Err(p) => return Res::Panic(p),
                    Ok(Err(e)) => {
                        end = format!("head-err-{}", variant(&e));
                        break 'o;
                    }
                    Ok(Ok(Some(h))) => {
                        heads += 1;
                        let _ = (h.status, h.version, h.headers().len(), cd.keep_alive(), cd.upgrade());
                        match cd.message_type() {
                            h1::MessageType::None => St::Head(cd),
                            _ => St::Body(cd.into_payload_codec()),
                        }
                    }
                    Ok(Ok(None)) => {
                        if buf.len() == before {
                            if last {
                                end = format!("{}eof-in-head", if buf.is_empty() { "clean-" } else { "" });
                            }
                            st = St::Head(cd);
                            break;
                        }
                        St::Head(cd)
                    }
                },
                St::Body(mut pc) => {
                    let r = if last && buf.is_empty() { guard(|| pc.decode_eof(&mut buf)) } else { guard(|| pc.decode(&mut buf)) };
                    match r {
                        Err(p) => return Res::Panic(p),
                        Ok(Err(e)) => {
                            end = format!("body-err-{}", variant(&e));
                            break 'o;
                        }
                        Ok(Ok(Some(Some(b)))) => {
                            body += b.len();
                            St::Body(pc)
                        }
                        Ok(Ok(Some(None))) => {
                            let _ = pc.keep_alive();
                            St::Head(pc.into_message_codec())
                        }
                        Ok(Ok(None)) => {
                            if buf.len() == before {
                                if last {
                                    end = "eof-in-body".into();
                                }
                                st = St::Body(pc);
                                break;
                            }
                            St::Body(pc)
                        }
                    }
                }
            };
        }
    }
    if body > c.data.len() {
        return fail("ill-formed-output", "client/delivered-more-than-fed", format!("{body} body bytes from {} input bytes", c.data.len()));
    }
    Res::Out(format!("{end}:{}h{}", heads.min(3), if body > 0 { "+body" } else { "" }))
}

// ------------------------------------------------------------------------------------------------
// a real App: routing + Path<T> / Query<T> extraction, and actix-files
// ------------------------------------------------------------------------------------------------

thread_local! {
    static OMNI: RefCell<String> = const { RefCell::new(String::new()) };
}

async fn omni(req: HttpRequest) -> HttpResponse {
    let mut o = String::new();
    o.push_str(req.match_pattern().as_deref().unwrap_or("?"));
    o.push(':');
    macro_rules! p {
        ($t:ty, $n:expr) => {
            o.push_str(match web::Path::<$t>::extract(&req).await {
                Ok(_) => concat!($n, "+"),
                Err(_) => concat!($n, "-"),
            });
        };
    }
    p!(u8, "u8");
    p!(u32, "u32");
    p!(i64, "i64");
    p!(String, "s");
    p!((String, u32), "t2");
    p!((String, String), "ss");
    p!(PNameId, "st");
    p!(Color, "e");
    p!(Vec<String>, "vs");
    p!(HashMap<String, String>, "m");
    let mi = req.match_info();
    let mut n = 0;
    for (k, v) in mi.iter() {
        n += k.len() + v.len();
    }
    let _ = (mi.unprocessed().len(), mi.as_str().len(), n, req.match_name());
    o.push(':');
    o.push_str(match web::Query::<QMain>::extract(&req).await {
        Ok(_) => "q+",
        Err(_) => "q-",
    });
    o.push_str(match web::Query::<QOpt>::extract(&req).await {
        Ok(_) => "o+",
        Err(_) => "o-",
    });
    OMNI.with(|c| *c.borrow_mut() = o);
    HttpResponse::Ok().finish()
}

struct FileRoot {
    dir: PathBuf,
}

impl FileRoot {
    fn create(ctx: &Ctx) -> std::io::Result<FileRoot> {
        let parent = match std::env::current_dir() {
            Ok(d) if d.join("target").is_dir() => d.join("target").join("c19-tmp"),
            _ => std::env::temp_dir().join("avmon-c19-tmp"),
        };
        let dir = parent.join(format!("avmon-c19-{}-{}-{}", std::process::id(), ctx.shard, ctx.layer));
        let _ = std::fs::remove_dir_all(&dir);
        std::fs::create_dir_all(dir.join("sub"))?;
        std::fs::write(dir.join("empty.txt"), b"")?;
        std::fs::write(dir.join("one.txt"), b"1")?;
        let big: Vec<u8> = (0..100_000u32).map(|i| b"0123456789abcdef"[(i % 16) as usize]).collect();
        std::fs::write(dir.join("big.bin"), &big)?;
        std::fs::write(dir.join("sub").join("index.html"), b"<p>index</p>")?;
        std::fs::write(dir.join("na\u{ef}ve \"q\".txt"), b"odd name")?;
        Ok(FileRoot { dir })
    }
}

impl Drop for FileRoot {
    fn drop(&mut self) {
        let _ = std::fs::remove_dir_all(&self.dir);
    }
}

const FILE_LENS: &[(&str, u64)] = &[("empty.txt", 0), ("one.txt", 1), ("big.bin", 100_000)];

async fn make_app(root: PathBuf) -> impl Service<actix_http::Request, Response = ServiceResponse, Error = actix_web::Error> {
    use actix_web::middleware::{NormalizePath, TrailingSlash};
    let (r0, r1, r2) = (root.clone(), root.clone(), root.clone());
    test::init_service(
        App::new()
            .service(web::resource("/a/{v}").to(omni))
            .service(web::resource("/b/{a}/{b}").to(omni))
            .service(web::resource("/c/{name}/{id}").to(omni))
            .service(web::resource("/t/{tail:.*}").to(omni))
            .service(web::resource("/r/{x:\\d+}/{y:[a-z]*}").to(omni))
            .service(web::resource(["/m1/{id}", "/m2/{id}/{k}"]).to(omni))
            .service(web::resource("/q").to(omni))
            .service(web::resource("/g").guard(actix_web::guard::Host("a.test").scheme("https")).to(omni))
            .service(web::resource("/g").guard(actix_web::guard::Host("b.test")).guard(actix_web::guard::Header("x-k", "v")).to(omni))
            .service(web::scope("/s/{sx}").service(web::resource("/{sy}/end").to(omni)).service(web::resource("/{sy}").to(omni)))
            .service(web::scope("/n").wrap(NormalizePath::trim()).service(web::resource("/{v}/x/{w}").to(omni)))
            .service(web::scope("/n2").wrap(NormalizePath::new(TrailingSlash::Always)).service(web::resource("/{v}/x/{w}/").to(omni)))
            .service(web::scope("/ns/{sx}").wrap(NormalizePath::trim()).service(web::resource("/{sy}").to(omni)).service(web::resource("/{sy}/{tail:.*}").to(omni)))
            .service(web::scope("/n3").wrap(NormalizePath::new(TrailingSlash::MergeOnly)).service(web::resource("/{v}/{w:.*}").to(omni)))
            .service(web::resource("/nf/empty").to(move |req: HttpRequest| {
                let p = r0.join("empty.txt");
                async move { actix_files::NamedFile::open(p).map(|f| f.use_etag(true).into_response(&req)) }
            }))
            .service(web::resource("/nf/one").to(move |req: HttpRequest| {
                let p = r1.join("one.txt");
                async move { actix_files::NamedFile::open(p).map(|f| f.use_last_modified(false).prefer_utf8(false).into_response(&req)) }
            }))
            .service(web::resource("/nf/big").to(move |req: HttpRequest| {
                let p = r2.join("big.bin");
                async move { actix_files::NamedFile::open(p).map(|f| f.read_mode_threshold(1 << 20).into_response(&req)) }
            }))
            .service(actix_files::Files::new("/f", &root).index_file("index.html").use_hidden_files())
            .service(actix_files::Files::new("/l", &root).show_files_listing().redirect_to_slash_directory())
            .default_service(web::to(omni)),
    )
    .await
}

/// A future whose every poll runs under `report::guard`.
struct GuardFut<F>(Pin<Box<F>>);

impl<F: Future> Future for GuardFut<F> {
    type Output = Result<F::Output, String>;
    fn poll(mut self: Pin<&mut Self>, cx: &mut Context<'_>) -> Poll<Self::Output> {
        let inner = &mut self.0;
        match guard(|| inner.as_mut().poll(cx)) {
            Ok(Poll::Ready(v)) => Poll::Ready(Ok(v)),
            Ok(Poll::Pending) => Poll::Pending,
            Err(m) => Poll::Ready(Err(m)),
        }
    }
}

async fn exec_app_one<S>(app: &S, c: &Case) -> Res
where
    S: Service<actix_http::Request, Response = ServiceResponse, Error = actix_web::Error>,
{
    let (uri, hs) = parse_reqtext(&c.data);
    let mut tr = TestRequest::get().uri(&uri);
    for (n, v) in hs {
        tr = tr.append_header((n, v));
    }
    OMNI.with(|o| o.borrow_mut().clear());
    let sres = match app.call(tr.to_request()).await {
        Ok(r) => r,
        Err(e) => return Res::Out(format!("svc-err-{}", e.as_response_error().status_code().as_u16())),
    };
    let (_, res) = sres.into_parts();
    let status = res.status().as_u16();
    let omni = OMNI.with(|o| o.borrow().clone());
    if c.ep == "web" {
        return Res::Out(format!("{status}:{omni}"));
    }
    // files: stream the body, check the declared framing
    let cr: Vec<String> = res.headers().get_all("content-range").map(|v| String::from_utf8_lossy(v.as_bytes()).into_owned()).collect();
    // the file length is only known to the oracle when the last segment names one of the files
    let upath = uri.split('?').next().unwrap_or("");
    let file_len = FILE_LENS.iter().find(|(n, _)| upath.ends_with(&format!("/{n}")) || upath == format!("/nf/{}", &n[..n.len() - 4].trim_end_matches('.'))).map(|x| x.1);
    let mut body = res.into_body();
    let declared = match body.size() {
        BodySize::Sized(n) => Some(n),
        _ => None,
    };
    let (mut got, mut chunks, mut berr) = (0u64, 0u32, false);
    loop {
        match std::future::poll_fn(|cx| Pin::new(&mut body).poll_next(cx)).await {
            None => break,
            Some(Err(_)) => {
                berr = true;
                break;
            }
            Some(Ok(b)) => {
                got += b.len() as u64;
                chunks += 1;
                if chunks > 4096 || got > 4_000_000 {
                    return fail("unbounded-loop", "files/body", format!("body exceeds every file served: {got} bytes in {chunks} chunks"));
                }
            }
        }
    }
    if !berr {
        if let Some(d) = declared {
            if d != got {
                return fail("ill-formed-output", "files/declared-size", format!("status {status}: declared {d} bytes, body yielded {got}"));
            }
        }
    }
    if status == 206 {
        let ok = cr.len() == 1 && {
            let s = cr[0].strip_prefix("bytes ").unwrap_or("");
            match s.split_once('/').and_then(|(r, l)| r.split_once('-').map(|(a, b)| (a.parse::<u64>(), b.parse::<u64>(), l.parse::<u64>()))) {
                Some((Ok(a), Ok(b), Ok(l))) => a <= b && b < l && (berr || got == b - a + 1) && file_len.map(|fl| fl == l).unwrap_or(true),
                _ => false,
            }
        };
        if !ok {
            return fail("ill-formed-output", "files/content-range", format!("206 with Content-Range {cr:?}, body {got} bytes, file length {file_len:?}"));
        }
    }
    Res::Out(format!("{status}{}{}", if berr { ":body-err" } else { "" }, if cr.is_empty() { "" } else { ":cr" }))
}

/// Run a batch against one App instance (rebuilt after a panic).
fn exec_app_batch(root: PathBuf, cases: Vec<Case>) -> Vec<Res> {
    run_virtual(async move {
        let mut app = make_app(root.clone()).await;
        let mut out = Vec::with_capacity(cases.len());
        for c in &cases {
            watch_begin(c);
            let r = GuardFut(Box::pin(exec_app_one(&app, c))).await;
            watch_end();
            out.push(match r {
                Ok(r) => r,
                Err(p) => {
                    app = make_app(root.clone()).await;
                    Res::Panic(p)
                }
            });
        }
        out
    })
}

const FILES_SEEDS: &[&str] = &[
    "/f/empty.txt\nRange: bytes=0-0",
    "/f/empty.txt\nRange: bytes=-5",
    "/f/one.txt\nRange: bytes=0-0, -1",
    "/f/one.txt\nRange: bytes=1-",
    "/f/big.bin\nRange: bytes=99990-100010",
    "/f/big.bin\nRange: bytes=0-9, 50000-50009, -10\nIf-Range: \"abc\"",
    "/f/big.bin\nIf-None-Match: \"x\", W/\"y\"\nIf-Modified-Since: Sun, 06 Nov 1994 08:49:37 GMT",
    "/f/one.txt\nIf-Match: *\nIf-Unmodified-Since: Fri, 31 Dec 9999 23:59:59 GMT\nRange: bytes=0-",
    "/nf/empty\nRange: bytes=-1\nIf-None-Match: *",
    "/nf/one\nRange: bytes=0-18446744073709551615",
    "/nf/big\nRange: bytes=65536-\nAccept-Encoding: gzip, br",
    "/f/sub/\nRange: bytes=2-3",
    "/l/sub\nAccept: text/html",
    "/f/na%C3%AFve%20%22q%22.txt\nRange: bytes=1-2",
    "/l/\nRange: bytes=0-1",
    "/f/big.bin\nRange: bytes=0-0,1-1,2-2,3-3,4-4,5-5,6-6,7-7,8-8,9-9",
];

// ------------------------------------------------------------------------------------------------
// the HTTP/1 server connection through the real dispatcher
// ------------------------------------------------------------------------------------------------

fn exec_h1(c: &Case) -> Res {
    let cfg = if c.v & 1 == 0 { ConnCfg::persistent() } else { ConnCfg::no_timers() };
    let mut sc = Scenario::new(cfg, vec![], 0);
    let mut prog = Prog::default();
    prog.read = match (c.v >> 1) % 4 {
        0 | 1 => ReadMode::All,
        2 => ReadMode::Ignore,
        _ => ReadMode::Chunks(1),
    };
    sc.default_prog = Some(prog);
    for s in c.segments() {
        sc.acts.push(Act::Push(s.to_vec()));
    }
    sc.acts.push(Act::Eof);
    let oc = match guard(|| run_scenario(&sc)) {
        Err(p) => return Res::Panic(p),
        Ok(oc) => oc,
    };
    if oc.livelock {
        return fail("unbounded-loop", "h1/self-wake", format!("connection still waking itself {} polls after the peer's EOF (done={})", sc.poll_cap, oc.done));
    }
    let fed = c.data.len() as u64;
    let delivered: u64 = oc.reqs.iter().map(|r| r.body.len() as u64).sum();
    if delivered > fed {
        return fail("ill-formed-output", "h1/delivered-more-than-fed", format!("{delivered} body bytes reached handlers from {fed} input bytes"));
    }
    let methods: Vec<String> = oc.reqs.iter().map(|r| r.method.clone()).collect();
    let rp = h1_resp::parse_responses(&oc.out, &|i| methods.get(i).cloned(), true);
    if let Some((at, why)) = rp.malformed_at {
        return fail("ill-formed-output", "h1/response-stream", format!("what the dispatcher wrote stops parsing as responses at offset {at} ({why}): {}", esc_short(&oc.out, 300)));
    }
    let last = rp.resps.last().map(|r| r.status).unwrap_or(0);
    Res::Out(format!(
        "{}:{}r:{}:{}{}",
        match &oc.result {
            Some(Ok(())) => "ok".to_string(),
            Some(Err(e)) => format!("err-{}", variant(e)),
            None => if oc.stalled { "pending-quiet".into() } else { "pending".into() },
        },
        oc.reqs.len().min(3),
        last,
        if oc.closed { "closed" } else { "open" },
        if oc.spins > 0 { ":spun" } else { "" }
    ))
}

// ------------------------------------------------------------------------------------------------
// dispatch, recording
// ------------------------------------------------------------------------------------------------

fn exec_pure(c: &Case) -> Res {
    match c.ep.as_str() {
        "h1" => exec_h1(c),
        "ws" => exec_ws(c),
        "wsparse" => exec_wsparse(c),
        "wshs" => exec_wshs(c),
        "multipart" => exec_multipart(c),
        "router" => exec_router(c),
        "query" => exec_query(c),
        "conninfo" => exec_conninfo(c),
        "cookies" => exec_cookies(c),
        "msg" => exec_msg(c),
        e if e.starts_with("hdr:") => exec_hdr(c),
        _ => Res::Out("unknown-entry-point".into()),
    }
}

/// All cases of a batch belong to the same entry point.
fn exec_batch(cases: Vec<Case>, root: &Option<FileRoot>) -> Vec<Res> {
    let Some(ep) = cases.first().map(|c| c.ep.clone()) else { return vec![] };
    match ep.as_str() {
        "web" | "files" => match root {
            Some(r) => exec_app_batch(r.dir.clone(), cases),
            None => cases.iter().map(|_| Res::Out("no-file-root".into())).collect(),
        },
        "h1codec" | "client" => run_virtual(async move {
            cases
                .iter()
                .map(|c| {
                    watch_begin(c);
                    let r = guard(|| if c.ep == "client" { exec_client(c) } else { exec_h1codec(c) }).unwrap_or_else(Res::Panic);
                    watch_end();
                    r
                })
                .collect()
        }),
        _ => cases
            .iter()
            .map(|c| {
                watch_begin(c);
                let mut r = guard(|| exec_pure(c)).unwrap_or_else(Res::Panic);
                watch_end();
                if c.ep == "h1" {
                    if let (Some(m), Res::Out(_)) = (swallowed_panic(), &r) {
                        r = Res::Panic(format!("(inside a spawned task) {m}"));
                    }
                }
                r
            })
            .collect(),
    }
}

fn family(ep: &str) -> &str {
    if ep.starts_with("hdr:") {
        "hdr"
    } else {
        ep
    }
}

struct Tally {
    families: BTreeSet<String>,
    sampled: BTreeSet<String>,
}

fn record(rep: &mut Reporter, t: &mut Tally, c: &Case, r: Res) {
    rep.eval();
    rep.count(&format!("ep:{}", c.ep), 1);
    rep.count(&format!("mut:{}", c.mc.trim_end_matches('+')), 1);
    rep.count(&format!("cuts:{}", cut_class(c)), 1);
    rep.max("input_len", c.data.len() as u64);
    t.families.insert(family(&c.ep).to_string());
    match r {
        Res::Out(o) => {
            let coarse = o.split(':').next().unwrap_or("").split('/').take(if family(&c.ep) == "msg" { 2 } else { 3 }).collect::<Vec<_>>().join("/");
            let coarse = if family(&c.ep) == "web" || family(&c.ep) == "router" || family(&c.ep) == "query" { coarse.chars().take(6).collect::<String>() } else { coarse };
            rep.count(&format!("out:{}:{}", family(&c.ep), coarse), 1);
            rep.sig(&format!("{}|{}|{}", c.ep, c.mc, o));
            if t.sampled.insert(format!("{}|{}", family(&c.ep), coarse)) && t.sampled.len() < 400 {
                rep.sample(family(&c.ep), json!({"ep": c.ep, "mutation": c.mc, "cuts": cut_class(c), "input": esc_short(&c.data, 160), "outcome": o}));
            }
        }
        Res::Panic(p) => {
            rep.violation("panic", &format!("{} in {}", c.ep, panic_site(&p)), &format!("{p}\n    {}", c.show()), c.replay());
        }
        Res::Fail { class, what, detail } => {
            rep.violation(class, &what, &format!("{detail}\n    {}", c.show()), c.replay());
        }
    }
}

// ------------------------------------------------------------------------------------------------
// workload
// ------------------------------------------------------------------------------------------------

/// (entry point, weight in the random phase, needs things Miri cannot do)
fn entry_points() -> Vec<(String, u32, bool)> {
    let mut v: Vec<(String, u32, bool)> = vec![
        ("h1".into(), 6, true),
        ("h1codec".into(), 12, false),
        ("client".into(), 12, false),
        ("ws".into(), 10, false),
        ("wsparse".into(), 4, false),
        ("wshs".into(), 3, false),
        ("multipart".into(), 8, false),
        ("router".into(), 6, false),
        ("web".into(), 3, true),
        ("query".into(), 5, false),
        ("conninfo".into(), 3, false),
        ("cookies".into(), 3, false),
        ("msg".into(), 2, false),
        ("files".into(), 2, true),
    ];
    HDRS.with(|h| {
        for x in h.iter() {
            v.push((format!("hdr:{}", x.0), 1, false));
        }
    });
    v
}

/// fixed seed corpus of an entry point: (data, aux)
fn fixed_seeds(ep: &str) -> Vec<(Vec<u8>, Vec<u8>)> {
    let s = |xs: &[&str]| xs.iter().map(|x| (x.as_bytes().to_vec(), vec![])).collect::<Vec<_>>();
    match ep {
        "h1" | "h1codec" => H1_FIXED.iter().map(|x| (x.to_vec(), vec![])).collect(),
        "client" => RESP_FIXED.iter().map(|x| (x.to_vec(), vec![])).collect(),
        "wshs" => s(WSHS_SEEDS),
        "conninfo" => s(CONNINFO_SEEDS),
        "cookies" => s(COOKIE_SEEDS),
        "msg" => s(MSG_SEEDS),
        "files" => s(FILES_SEEDS),
        "router" | "web" => s(URI_SEEDS),
        "query" => URI_SEEDS.iter().filter_map(|u| u.split_once('?')).map(|(_, q)| (q.as_bytes().to_vec(), vec![])).collect(),
        "multipart" => MULTIPART_FIXED.iter().map(|(ct, b)| (b.as_bytes().to_vec(), ct.as_bytes().to_vec())).collect(),
        e if e.starts_with("hdr:") => HDRS.with(|h| h.iter().find(|x| x.0 == &e[4..]).map(|x| s(x.3)).unwrap_or_default()),
        _ => vec![],
    }
}

fn is_stream(ep: &str) -> bool {
    matches!(ep, "h1" | "h1codec" | "client" | "ws" | "wsparse" | "multipart")
}

fn max_len_for(ep: &str, miri: bool) -> usize {
    if miri {
        return 600;
    }
    match ep {
        "h1" | "h1codec" | "client" => 160_000,
        "ws" | "wsparse" | "multipart" => 80_000,
        "router" | "web" | "query" => 70_000,
        "files" => 20_000,
        _ => 12_000,
    }
}

fn gen_case(rng: &mut Rng, ep: &str, miri: bool) -> Case {
    let fixed = fixed_seeds(ep);
    let pick_fixed = |rng: &mut Rng| -> (Vec<u8>, Vec<u8>) {
        if fixed.is_empty() {
            (vec![], vec![])
        } else {
            rng.pick(&fixed).clone()
        }
    };
    let server = rng.chance(1, 2);
    let (seed, aux) = match ep {
        "h1" | "h1codec" => (h1_seed(rng), vec![]),
        "ws" | "wsparse" => (ws_seed(rng, server), vec![]),
        "multipart" if rng.chance(3, 4) => multipart_seed(rng),
        _ => pick_fixed(rng),
    };
    let (other, _) = match ep {
        "ws" | "wsparse" => (ws_seed(rng, server), vec![]),
        _ => pick_fixed(rng),
    };
    let m = Mut { pct: matches!(ep, "router" | "web" | "query"), max_len: max_len_for(ep, miri), other: &other };
    let (mut data, mut mc) = mutate(rng, &seed, &m);
    let mut aux = aux;
    if ep == "multipart" && rng.chance(1, 3) {
        // mutate the Content-Type (boundary parameter) instead of / as well as the body
        let keep_body = rng.chance(1, 2);
        let (a, mca) = mutate(rng, &aux, &Mut { pct: false, max_len: 4000, other: b"multipart/form-data; boundary=zz" });
        aux = a;
        if keep_body {
            data = seed.clone();
            mc = format!("ct-{mca}");
        } else {
            mc = format!("{mc}&ct");
        }
    }
    let mut c = Case::new(ep, &mc, data);
    c.aux = aux;
    c.v = match ep {
        "ws" | "wsparse" => (if server { 0 } else { 1 }) | ((rng.below(WS_SIZES.len()) as u32) << 1),
        _ => rng.below(16) as u32,
    };
    if is_stream(ep) {
        c.cuts = gen_cuts(rng, c.data.len());
        if ep == "h1" && c.cuts.len() > 300 {
            // one poll round per segment: keep the scripted connection runs short
            c.cuts.truncate(300);
        }
    }
    c
}

/// Deterministic grid: every numeric position of every fixed seed × every extreme value.
fn numeric_grid(eps: &[(String, u32, bool)], keep: &dyn Fn(u64) -> bool) -> Vec<Case> {
    let mut out = vec![];
    let mut idx = 0u64;
    for (ep, _, _) in eps {
        for (si, (seed, aux)) in fixed_seeds(ep).into_iter().enumerate() {
            for hexm in [false, true] {
                if hexm && !matches!(ep.as_str(), "h1" | "h1codec" | "client" | "router" | "web" | "query") {
                    continue;
                }
                let table = if hexm { HEXNUMS } else { NUMS };
                for (ri, (s, e)) in digit_runs(&seed, hexm).into_iter().enumerate() {
                    // only the first digit runs of the protocol-version literals are boring
                    for (xi, x) in table.iter().enumerate() {
                        idx += 1;
                        if !keep(idx) {
                            continue;
                        }
                        let mut c = Case::new(ep, if hexm { "grid-hex" } else { "grid-dec" }, splice(&seed, s, e, x.as_bytes()));
                        c.aux = aux.clone();
                        c.v = ((si + ri + xi) % 16) as u32;
                        if is_stream(ep) && c.data.len() <= 400 && ep != "h1" {
                            let mut b = c.clone();
                            b.cuts = (1..b.data.len()).collect();
                            out.push(b);
                        }
                        out.push(c);
                    }
                }
            }
            // numeric positions of a multipart Content-Type
            if ep == "multipart" {
                for x in NUMS {
                    idx += 1;
                    if !keep(idx) {
                        continue;
                    }
                    let mut c = Case::new(ep, "grid-ct", seed.clone());
                    c.aux = [aux.as_slice(), b"; q=", x.as_bytes()].concat();
                    out.push(c);
                }
            }
        }
    }
    out
}

/// Lengths around every representation limit the code is known to have (u8, u16 indices of the
/// router, http's 65 534 / 65 535 limits, the 131 072-byte head buffer, the 70-byte boundary).
fn length_boundaries(eps: &[(String, u32, bool)], max: usize) -> Vec<Case> {
    let has = |e: &str| eps.iter().any(|x| x.0 == e);
    let mut out = vec![];
    let lens: Vec<usize> = [255usize, 256, 4096, 32_767, 32_768, 65_279, 65_280].iter().copied().chain(65_520..=65_537).filter(|l| *l <= max).collect();
    for ep in ["router", "web"] {
        if !has(ep) {
            continue;
        }
        for prefix in ["/a/", "/b/x/", "/t/", "/n/v1/x/", "/n2/v1/x/", "/n3/v/", "/ns/q/", "/ns/q//", "/s/one/", "/q?name=", "/m2/5/"] {
            for &l in &lens {
                for (tail, fill) in [("", b'a'), ("/", b'a'), ("//", b'a'), ("%C3%A9", b'a'), ("", b'/'), ("/x", b'%')] {
                    if l < prefix.len() + tail.len() {
                        continue;
                    }
                    let mut d = prefix.as_bytes().to_vec();
                    d.extend(std::iter::repeat(fill).take(l - prefix.len() - tail.len()));
                    d.extend_from_slice(tail.as_bytes());
                    out.push(Case::new(ep, "len-boundary", d));
                }
            }
        }
    }
    for ep in ["h1", "h1codec", "client"] {
        if !has(ep) {
            continue;
        }
        let start: &[u8] = if ep == "client" { b"HTTP/1.1 200 OK\r\n" } else { b"POST /x HTTP/1.1\r\nHost: a\r\n" };
        let end: &[u8] = b"Content-Length: 2\r\n\r\nhi";
        for l in [255usize, 256, 8191, 8192, 32_768, 65_534, 65_535, 65_536, 65_537, 130_900, 131_072, 131_100].into_iter().filter(|l| *l <= max) {
            // field name, field value, one line without colon
            for shape in 0..4 {
                let mut d = start.to_vec();
                match shape {
                    0 => {
                        d.extend(std::iter::repeat(b'n').take(l));
                        d.extend_from_slice(b": v\r\n");
                    }
                    1 => {
                        d.extend_from_slice(b"x-long: ");
                        d.extend(std::iter::repeat(b'v').take(l));
                        d.extend_from_slice(b"\r\n");
                    }
                    2 => {
                        // many small fields summing up to l bytes
                        let mut i = 0;
                        while d.len() < l {
                            d.extend_from_slice(format!("h{i}: {i}\r\n").as_bytes());
                            i += 1;
                        }
                    }
                    _ => {
                        // the target / reason phrase itself
                        d = if ep == "client" { b"HTTP/1.1 200 ".to_vec() } else { b"GET /".to_vec() };
                        d.extend(std::iter::repeat(b'r').take(l));
                        d.extend_from_slice(if ep == "client" { b"\r\n" } else { b" HTTP/1.1\r\nHost: a\r\n" });
                    }
                }
                d.extend_from_slice(end);
                let mut c = Case::new(ep, "len-boundary", d);
                c.v = (l % 7) as u32;
                if shape == 1 {
                    c.cuts = vec![start.len() + 4, l / 2, l];
                }
                out.push(c);
            }
        }
        // chunk-size line and chunk-extension lengths
        for l in [15usize, 16, 17, 18, 255, 4096, 65_536].into_iter().filter(|l| *l <= max) {
            let mut d = if ep == "client" { b"HTTP/1.1 200 OK\r\nTransfer-Encoding: chunked\r\n\r\n".to_vec() } else { b"POST /c HTTP/1.1\r\nHost: a\r\nTransfer-Encoding: chunked\r\n\r\n".to_vec() };
            let mut e = d.clone();
            d.extend(std::iter::repeat(b'0').take(l));
            d.extend_from_slice(b"2\r\nhi\r\n0\r\n\r\n");
            e.extend_from_slice(b"2;");
            e.extend(std::iter::repeat(b'e').take(l));
            e.extend_from_slice(b"\r\nhi\r\n0\r\n\r\n");
            out.push(Case::new(ep, "len-boundary", d));
            out.push(Case::new(ep, "len-boundary", e));
        }
    }
    if has("multipart") {
        for l in [1usize, 69, 70, 71, 72, 255, 256, 4096, 70_000].into_iter().filter(|l| *l <= max) {
            let b = "b".repeat(l);
            for quoted in [false, true] {
                let mut c = Case::new("multipart", "len-boundary", format!("--{b}\r\nContent-Disposition: form-data; name=\"f\"\r\n\r\nhello\r\n--{b}--\r\n").into_bytes());
                c.aux = if quoted { format!("multipart/form-data; boundary=\"{b}\"") } else { format!("multipart/form-data; boundary={b}") }.into_bytes();
                c.cuts = vec![l / 2 + 1, l + 3];
                out.push(c);
            }
            // long part-header line and many part headers
            let mut c = Case::new("multipart", "len-boundary", format!("--x\r\nContent-Disposition: form-data; name=\"{b}\"\r\nX-{b}: 1\r\n\r\nhello\r\n--x--\r\n").into_bytes());
            c.aux = b"multipart/form-data; boundary=x".to_vec();
            out.push(c);
        }
    }
    out
}

fn run_cases(cases: Vec<Case>, root: &Option<FileRoot>, rep: &mut Reporter, t: &mut Tally) {
    let keep = cases.clone();
    let res = exec_batch(cases, root);
    for (c, r) in keep.iter().zip(res) {
        record(rep, t, c, r);
    }
}

pub fn run(ctx: &Ctx, rep: &mut Reporter) {
    let miri = ctx.is_miri();
    if !miri {
        start_watchdog(Duration::from_secs(if ctx.layer == "asan" { 60 } else { 20 }));
    }
    let root = if miri {
        None
    } else {
        match FileRoot::create(ctx) {
            Ok(r) => Some(r),
            Err(e) => {
                rep.inconclusive(&format!("cannot create the temp file tree: {e}"));
                return;
            }
        }
    };
    let mut t = Tally { families: BTreeSet::new(), sampled: BTreeSet::new() };

    if let Some(rp) = &ctx.replay {
        let c = Case::from_json(rp);
        run_cases(vec![c], &root, rep, &mut t);
        rep.sig("replay");
        rep.sig("replay2");
        return;
    }

    let eps: Vec<(String, u32, bool)> = entry_points().into_iter().filter(|e| !(miri && e.2)).collect();

    // ---- phase A: numeric grid (exhaustive over the fixed corpus)
    let stride = if miri { 199 } else { 1 };
    let grid = numeric_grid(&eps, &|i| i % stride == 0 && ctx.mine(i / stride));
    let mut complete = true;
    let mut by_ep: Vec<(String, Vec<Case>)> = vec![];
    for c in grid {
        match by_ep.iter_mut().find(|(e, _)| *e == c.ep) {
            Some((_, v)) => v.push(c),
            None => by_ep.push((c.ep.clone(), vec![c])),
        }
    }
    for (_, cases) in by_ep {
        for chunk in cases.chunks(64) {
            if ctx.out_of_time() {
                complete = false;
                break;
            }
            run_cases(chunk.to_vec(), &root, rep, &mut t);
        }
    }
    if !miri {
        rep.exhaustive("numeric-positions-of-fixed-corpus x extremes", complete);
    }

    // ---- phase A2: lengths around representation limits
    let mut by_ep: Vec<(String, Vec<Case>)> = vec![];
    for (i, c) in length_boundaries(&eps, if miri { 300 } else { usize::MAX }).into_iter().enumerate() {
        if !ctx.mine(i as u64) || (miri && i % 5 != 0) {
            continue;
        }
        match by_ep.iter_mut().find(|(e, _)| *e == c.ep) {
            Some((_, v)) => v.push(c),
            None => by_ep.push((c.ep.clone(), vec![c])),
        }
    }
    for (_, cases) in by_ep {
        for chunk in cases.chunks(32) {
            if ctx.out_of_time() {
                break;
            }
            run_cases(chunk.to_vec(), &root, rep, &mut t);
        }
    }

    // ---- phase B: WebSocket length forms at their extremes
    let mut k = 0u64;
    let mut batch = vec![];
    for (label, bytes) in ws_length_grid() {
        for v in 0..(2 * WS_SIZES.len() as u32) {
            for ep in ["ws", "wsparse"] {
                k += 1;
                if !ctx.mine(k) || (miri && (k / ctx.nshards) % 331 != 0) {
                    continue;
                }
                let mut c = Case::new(ep, &label, bytes.clone());
                c.v = v;
                if k % 3 == 0 {
                    c.cuts = (1..c.data.len().min(16)).collect();
                }
                batch.push(c);
            }
        }
    }
    for chunk in batch.chunks(256) {
        if ctx.out_of_time() {
            break;
        }
        run_cases(chunk.to_vec(), &root, rep, &mut t);
    }

    // ---- phase C: random structured mutation
    let total_w: u32 = eps.iter().map(|e| e.1).sum();
    let bsize = if miri { 4 } else { 32 };
    // Miri: a fixed round (the decoders and the router get the larger part), interleaved so that a
    // budget stop still leaves every entry point exercised
    let mut miri_round: Vec<String> = vec![];
    for rep_i in 0..12 {
        for e in &eps {
            let heavy = matches!(e.0.as_str(), "h1codec" | "client" | "ws" | "wsparse" | "router" | "multipart" | "query" | "wshs");
            if heavy || rep_i < 2 {
                miri_round.push(e.0.clone());
            }
        }
    }
    let nb = if miri { miri_round.len() as u64 } else { ctx.share(300_000, 12_000_000) / bsize };
    for b in 0..nb {
        if ctx.out_of_time() {
            rep.count("random_phase_stopped_by_budget", 1);
            break;
        }
        let mut rng = Rng::derive(ctx.seed, 1900, b * ctx.nshards + ctx.shard);
        let ep = if miri {
            miri_round[b as usize].clone()
        } else if (b as usize) < eps.len() {
            // first one batch of every entry point, so that a shard cut short by its budget on a
            // loaded machine has still exercised every family
            eps[b as usize].0.clone()
        } else {
            let mut w = rng.below(total_w as usize) as u32;
            let mut pick = eps[0].0.clone();
            for e in &eps {
                if w < e.1 {
                    pick = e.0.clone();
                    break;
                }
                w -= e.1;
            }
            pick
        };
        // one App (and its intentionally leaked route names) serves a larger batch
        let n = if !miri && matches!(ep.as_str(), "web" | "files") { 4 * bsize } else { bsize };
        let cases: Vec<Case> = (0..n).map(|_| gen_case(&mut rng, &ep, miri)).collect();
        run_cases(cases, &root, rep, &mut t);
    }

    rep.max("entry_point_families_seen", t.families.len() as u64);
    if t.families.len() < if miri { 6 } else { 14 } {
        rep.inconclusive(&format!("only {} entry-point families were exercised", t.families.len()));
    }
    let _ = (Version::HTTP_11, MUT_CLASSES);
}
