//! C19 — not built yet.
use crate::report::{Ctx, Reporter};

pub fn run(_ctx: &Ctx, rep: &mut Reporter) {
    rep.inconclusive("C19 monitor not built");
}
