//! C18 — HeaderMap behaves as an order-preserving multimap under every operation sequence.
//!
//! Oracle: `refmodel::multimap` run in lock-step; after *every* operation the whole observable
//! surface of the real map is compared (len, len_keys, is_empty, get/get_all/contains_key for every
//! spelling of every name, iter/keys/into_iter/drain content with `size_hint()`/`len()` checked
//! before every `next()`, conversion to and from `http::HeaderMap`).  Iterators returned by
//! mutating operations (`Removed`, `Drain`) get the same treatment.

use std::collections::BTreeMap;

use actix_http::header::{HeaderMap, HeaderName, HeaderValue};
use serde_json::json;

use crate::{
    refmodel::multimap::MultiMap,
    report::{guard, panic_site, Ctx, Reporter},
    util::Rng,
};

/// canonical (lower-case) names of the universe and the spellings used to address them
const NAMES: [&str; 3] = ["a", "x-b", "content-type"];
const SPELLINGS: [&str; 6] = ["a", "A", "x-b", "X-B", "content-type", "Content-Type"];

#[derive(Clone, Copy, Debug, PartialEq, Eq)]
enum Op {
    /// insert with HeaderName of NAMES[i]
    Insert(usize),
    Append(usize),
    /// remove addressed by &str SPELLINGS[i]
    RemoveStr(usize),
    /// remove addressed by HeaderName NAMES[i]
    RemoveName(usize),
    /// remove with a string that is not a valid header name
    RemoveInvalid,
    /// retain values whose numeric id is even / odd
    RetainParity(bool),
    /// retain everything but rewrite each value through `&mut HeaderValue`
    RetainRewrite,
    /// retain only values of NAMES[i]
    RetainName(usize),
    /// drain, consuming k items (k >= 100: all) then dropping the iterator
    Drain(usize),
    Clear,
    /// overwrite the first value of SPELLINGS[i] through get_mut
    GetMut(usize),
    /// replace the map by http::HeaderMap::from(map) converted back
    RoundTripHttp,
    /// replace the map by map.clone().into_iter().collect()
    RebuildFromIter,
}

impl Op {
    fn name(&self) -> String {
        match self {
            Op::Insert(i) => format!("insert({})", NAMES[*i]),
            Op::Append(i) => format!("append({})", NAMES[*i]),
            Op::RemoveStr(i) => format!("remove(\"{}\")", SPELLINGS[*i]),
            Op::RemoveName(i) => format!("remove(HeaderName {})", NAMES[*i]),
            Op::RemoveInvalid => "remove(\"bad name\")".into(),
            Op::RetainParity(e) => format!("retain(id%2=={})", if *e { 0 } else { 1 }),
            Op::RetainRewrite => "retain(rewrite)".into(),
            Op::RetainName(i) => format!("retain(name=={})", NAMES[*i]),
            Op::Drain(k) => format!("drain(take {})", k),
            Op::Clear => "clear".into(),
            Op::GetMut(i) => format!("get_mut(\"{}\")", SPELLINGS[*i]),
            Op::RoundTripHttp => "roundtrip(http::HeaderMap)".into(),
            Op::RebuildFromIter => "rebuild(into_iter.collect)".into(),
        }
    }
    /// short kind used in signatures
    fn kind(&self) -> &'static str {
        match self {
            Op::Insert(_) => "insert",
            Op::Append(_) => "append",
            Op::RemoveStr(_) => "remove-str",
            Op::RemoveName(_) => "remove-name",
            Op::RemoveInvalid => "remove-invalid",
            Op::RetainParity(_) => "retain-parity",
            Op::RetainRewrite => "retain-rewrite",
            Op::RetainName(_) => "retain-name",
            Op::Drain(_) => "drain",
            Op::Clear => "clear",
            Op::GetMut(_) => "get_mut",
            Op::RoundTripHttp => "roundtrip-http",
            Op::RebuildFromIter => "rebuild-iter",
        }
    }
}

/// The op alphabet used for exhaustive enumeration (two names are enough to expose every
/// interaction; the third name appears in the random phase).
fn alphabet() -> Vec<Op> {
    vec![
        Op::Insert(0),
        Op::Insert(1),
        Op::Append(0),
        Op::Append(1),
        Op::RemoveStr(1),  // "A"
        Op::RemoveName(1), // x-b
        Op::RemoveStr(4),  // absent unless the random phase put it there: remove(absent)
        Op::RemoveInvalid,
        Op::RetainParity(true),
        Op::RetainName(0),
        Op::Drain(1),
        Op::Drain(100),
        Op::GetMut(3), // "X-B"
        Op::RoundTripHttp,
        Op::RetainRewrite,
        Op::RebuildFromIter,
        Op::Clear,
    ]
}

fn full_alphabet() -> Vec<Op> {
    let mut v = vec![];
    for i in 0..3 {
        v.push(Op::Insert(i));
        v.push(Op::Append(i));
        v.push(Op::Append(i));
        v.push(Op::RemoveName(i));
        v.push(Op::RetainName(i));
    }
    for i in 0..6 {
        v.push(Op::RemoveStr(i));
        v.push(Op::GetMut(i));
    }
    v.extend([
        Op::RemoveInvalid,
        Op::RetainParity(true),
        Op::RetainParity(false),
        Op::RetainRewrite,
        Op::Drain(0),
        Op::Drain(1),
        Op::Drain(2),
        Op::Drain(100),
        Op::Clear,
        Op::RoundTripHttp,
        Op::RebuildFromIter,
    ]);
    v
}

fn hn(i: usize) -> HeaderName {
    HeaderName::from_bytes(NAMES[i].as_bytes()).unwrap()
}

fn val_id(v: &[u8]) -> u64 {
    // values look like "v<id>" or "w<id>" (rewritten)
    std::str::from_utf8(&v[1..]).ok().and_then(|s| s.parse().ok()).unwrap_or(0)
}

struct Failure {
    class: &'static str,
    site: String,
    detail: String,
}

macro_rules! fail {
    ($class:expr, $site:expr, $($arg:tt)*) => {
        return Err(Failure { class: $class, site: $site.to_string(), detail: format!($($arg)*) })
    };
}

/// Drive an ExactSizeIterator to its end checking size_hint()/len() before every next().
fn exact_drain<I, T>(mut it: I, expect: usize, site: &str) -> Result<Vec<T>, Failure>
where
    I: ExactSizeIterator<Item = T>,
{
    let mut out = Vec::new();
    let mut remaining = expect;
    loop {
        let sh = it.size_hint();
        if sh != (remaining, Some(remaining)) {
            fail!("size_hint", site, "{site}: size_hint()={:?} with {} items actually remaining", sh, remaining);
        }
        // ExactSizeIterator::len() asserts lower == upper: this is where a bad hint panics
        let l = it.len();
        if l != remaining {
            fail!("size_hint", site, "{site}: len()={} with {} items actually remaining", l, remaining);
        }
        match it.next() {
            Some(x) => {
                if remaining == 0 {
                    fail!("iter-content", site, "{site}: yielded more items than the model holds");
                }
                remaining -= 1;
                out.push(x);
            }
            None => {
                if remaining != 0 {
                    fail!("iter-content", site, "{site}: ended with {} items missing", remaining);
                }
                // fused: a second next() must still be None and the hint must stay (0, Some(0))
                if it.next().is_some() || it.size_hint() != (0, Some(0)) {
                    fail!("size_hint", site, "{site}: not fused / hint not (0,Some(0)) after the end");
                }
                return Ok(out);
            }
        }
    }
}

fn group(pairs: Vec<(String, Vec<u8>)>) -> BTreeMap<String, Vec<Vec<u8>>> {
    let mut m: BTreeMap<String, Vec<Vec<u8>>> = BTreeMap::new();
    for (k, v) in pairs {
        m.entry(k).or_default().push(v);
    }
    m
}

/// Compare the whole observable surface of `map` with `model`.
fn check_all(map: &HeaderMap, model: &MultiMap, stats: &mut Stats) -> Result<(), Failure> {
    if map.len() != model.len() {
        fail!("len", "len", "len()={} model={}", map.len(), model.len());
    }
    if map.len_keys() != model.len_keys() {
        fail!("len", "len_keys", "len_keys()={} model={}", map.len_keys(), model.len_keys());
    }
    if map.is_empty() != (model.len() == 0) {
        fail!("len", "is_empty", "is_empty()={} model len={}", map.is_empty(), model.len());
    }
    for (si, sp) in SPELLINGS.iter().enumerate() {
        let want_all = model.get_all(sp);
        let got = map.get(*sp).map(|v| v.as_bytes().to_vec());
        if got.as_ref() != model.get(sp) {
            fail!("lookup", format!("get(\"{sp}\")"), "get({sp}) = {:?}, model {:?}", got, model.get(sp));
        }
        let got_all: Vec<Vec<u8>> = map.get_all(*sp).map(|v| v.as_bytes().to_vec()).collect();
        if got_all != want_all {
            fail!("lookup", format!("get_all(\"{sp}\")"), "get_all({sp}) = {:?}, model {:?}", got_all, want_all);
        }
        if map.contains_key(*sp) != !want_all.is_empty() {
            fail!("lookup", format!("contains_key(\"{sp}\")"), "contains_key({sp}) wrong");
        }
        // same through a HeaderName
        let name = hn(si / 2);
        let got_all_n: Vec<Vec<u8>> = map.get_all(&name).map(|v| v.as_bytes().to_vec()).collect();
        if got_all_n != want_all || map.contains_key(&name) != !want_all.is_empty() {
            fail!("lookup", "get_all(HeaderName)", "lookup by HeaderName {} disagrees", name);
        }
        stats.lookups += 3;
    }
    if map.get("bad name").is_some() || map.contains_key("bad name") || map.get_all("bad name").next().is_some() {
        fail!("lookup", "get(invalid)", "lookup with an invalid name found something");
    }

    // iter()
    let items = exact_drain(map.iter(), model.len(), "iter()")?;
    let got = group(items.into_iter().map(|(k, v)| (k.as_str().to_string(), v.as_bytes().to_vec())).collect());
    if got != model.m {
        fail!("iter-content", "iter()", "iter() = {:?}, model {:?}", got, model.m);
    }
    // (&map).into_iter()
    let items = exact_drain((&*map).into_iter(), model.len(), "(&map).into_iter()")?;
    if items.len() != model.len() {
        fail!("iter-content", "(&map).into_iter()", "wrong count");
    }
    // keys()
    let keys = exact_drain(map.keys(), model.len_keys(), "keys()")?;
    let mut ks: Vec<String> = keys.into_iter().map(|k| k.as_str().to_string()).collect();
    ks.sort();
    let want_keys: Vec<String> = model.m.keys().cloned().collect();
    if ks != want_keys {
        fail!("iter-content", "keys()", "keys() = {:?}, model {:?}", ks, want_keys);
    }
    // clone().into_iter()
    let items = exact_drain(map.clone().into_iter(), model.len(), "into_iter()")?;
    let got = group(items.into_iter().map(|(k, v)| (k.as_str().to_string(), v.as_bytes().to_vec())).collect());
    if got != model.m {
        fail!("iter-content", "into_iter()", "into_iter() = {:?}, model {:?}", got, model.m);
    }
    // clone().drain(): names appear once, on the first value of their run
    let mut c = map.clone();
    let items = exact_drain(c.drain(), model.len(), "drain()")?;
    let mut cur: Option<String> = None;
    let mut pairs = vec![];
    for (k, v) in items {
        if let Some(k) = k {
            cur = Some(k.as_str().to_string());
        }
        match &cur {
            Some(k) => pairs.push((k.clone(), v.as_bytes().to_vec())),
            None => fail!("iter-content", "drain()", "drain() yielded a value before any name"),
        }
    }
    if group(pairs) != model.m {
        fail!("iter-content", "drain()", "drain() content differs from model {:?}", model.m);
    }
    if !c.is_empty() || c.len() != 0 {
        fail!("len", "drain()", "map not empty after drain()");
    }
    // conversion to http::HeaderMap and back
    let h: http::HeaderMap = http::HeaderMap::from(map);
    if h.len() != model.len() || h.keys_len() != model.len_keys() {
        fail!("convert", "From<&HeaderMap> for http::HeaderMap", "http map len {} keys {} model {} {}", h.len(), h.keys_len(), model.len(), model.len_keys());
    }
    for n in NAMES {
        let got: Vec<Vec<u8>> = h.get_all(n).iter().map(|v| v.as_bytes().to_vec()).collect();
        if got != model.get_all(n) {
            fail!("convert", "From<&HeaderMap> for http::HeaderMap", "http map values of {n}: {:?} model {:?}", got, model.get_all(n));
        }
    }
    let back = HeaderMap::from(h);
    if back.len() != model.len() || back.len_keys() != model.len_keys() {
        fail!("convert", "From<http::HeaderMap> for HeaderMap", "len after round trip {} model {}", back.len(), model.len());
    }
    for n in NAMES {
        let got: Vec<Vec<u8>> = back.get_all(n).map(|v| v.as_bytes().to_vec()).collect();
        if got != model.get_all(n) {
            fail!("convert", "From<http::HeaderMap> for HeaderMap", "values of {n} after round trip: {:?} model {:?}", got, model.get_all(n));
        }
    }
    stats.full_checks += 1;
    Ok(())
}

#[derive(Default)]
struct Stats {
    lookups: u64,
    full_checks: u64,
    removed_iters: u64,
    removed_nonempty: u64,
    removed_absent: u64,
    drains_partial: u64,
}

fn apply(op: Op, map: &mut HeaderMap, model: &mut MultiMap, next_id: &mut u64, stats: &mut Stats) -> Result<(), Failure> {
    let mut fresh = |pfx: char| {
        *next_id += 1;
        format!("{pfx}{}", *next_id).into_bytes()
    };
    match op {
        Op::Insert(i) => {
            let v = fresh('v');
            let removed = map.insert(hn(i), HeaderValue::from_bytes(&v).unwrap());
            let want = model.insert(NAMES[i], &v);
            check_removed(removed, want, "insert", stats)?;
        }
        Op::Append(i) => {
            let v = fresh('v');
            map.append(hn(i), HeaderValue::from_bytes(&v).unwrap());
            model.append(NAMES[i], &v);
        }
        Op::RemoveStr(i) => {
            let removed = map.remove(SPELLINGS[i]);
            let want = model.remove(SPELLINGS[i]);
            check_removed(removed, want, "remove", stats)?;
        }
        Op::RemoveName(i) => {
            let removed = map.remove(hn(i));
            let want = model.remove(NAMES[i]);
            check_removed(removed, want, "remove", stats)?;
        }
        Op::RemoveInvalid => {
            let removed = map.remove("bad name");
            check_removed(removed, vec![], "remove", stats)?;
        }
        Op::RetainParity(even) => {
            map.retain(|_, v| (val_id(v.as_bytes()) % 2 == 0) == even);
            model.retain(|_, v| (val_id(v) % 2 == 0) == even);
        }
        Op::RetainRewrite => {
            map.retain(|_, v| {
                let mut b = v.as_bytes().to_vec();
                b[0] = b'w';
                *v = HeaderValue::from_bytes(&b).unwrap();
                true
            });
            model.retain(|_, v| {
                v[0] = b'w';
                true
            });
        }
        Op::RetainName(i) => {
            map.retain(|n, _| n.as_str() == NAMES[i]);
            model.retain(|n, _| n == NAMES[i]);
        }
        Op::Drain(k) => {
            let total = model.len();
            {
                let mut d = map.drain();
                let mut remaining = total;
                for _ in 0..k.min(total) {
                    if d.size_hint() != (remaining, Some(remaining)) || d.len() != remaining {
                        fail!("size_hint", "drain() partial", "drain hint {:?} remaining {}", d.size_hint(), remaining);
                    }
                    if d.next().is_none() {
                        fail!("iter-content", "drain() partial", "drain ended early");
                    }
                    remaining -= 1;
                }
                if k < total {
                    stats.drains_partial += 1;
                }
            }
            model.clear();
        }
        Op::Clear => {
            map.clear();
            model.clear();
        }
        Op::GetMut(i) => {
            let want_present = model.get(SPELLINGS[i]).is_some();
            match map.get_mut(SPELLINGS[i]) {
                Some(v) => {
                    if !want_present {
                        fail!("lookup", "get_mut", "get_mut found a value the model does not hold");
                    }
                    let nv = fresh('v');
                    *v = HeaderValue::from_bytes(&nv).unwrap();
                    model.m.get_mut(&MultiMap::key(SPELLINGS[i])).unwrap()[0] = nv;
                }
                None => {
                    if want_present {
                        fail!("lookup", "get_mut", "get_mut missed a value the model holds");
                    }
                }
            }
        }
        Op::RoundTripHttp => {
            let h: http::HeaderMap = std::mem::take(map).into();
            *map = HeaderMap::from(h);
        }
        Op::RebuildFromIter => {
            *map = std::mem::take(map).into_iter().collect();
        }
    }
    Ok(())
}

fn check_removed(removed: actix_http::header::map::Removed, want: Vec<Vec<u8>>, what: &str, stats: &mut Stats) -> Result<(), Failure> {
    stats.removed_iters += 1;
    if want.is_empty() {
        stats.removed_absent += 1;
    } else {
        stats.removed_nonempty += 1;
    }
    let site = format!("Removed from {what}({})", if want.is_empty() { "absent" } else { "present" });
    if removed.is_empty() != want.is_empty() {
        fail!("iter-content", site, "{site}: is_empty()={} model has {} values", removed.is_empty(), want.len());
    }
    let got: Vec<Vec<u8>> = exact_drain(removed, want.len(), &site)?.into_iter().map(|v| v.as_bytes().to_vec()).collect();
    if got != want {
        fail!("iter-content", site, "{site}: yielded {:?}, model {:?}", got, want);
    }
    Ok(())
}

/// Run one operation sequence from an empty map.  Returns the failure (with the index of the
/// failing op) if the map ever disagrees with the model; a panic in the map is a failure too.
fn run_seq(ops: &[Op], stats: &mut Stats, rep: &mut Reporter, record_sigs: bool) -> Option<(usize, Failure)> {
    let mut map = HeaderMap::new();
    let mut model = MultiMap::default();
    let mut next_id = 0u64;
    for (idx, &op) in ops.iter().enumerate() {
        let pre = if record_sigs { model.shape(&NAMES) } else { String::new() };
        let r = guard(|| {
            apply(op, &mut map, &mut model, &mut next_id, stats)?;
            check_all(&map, &model, stats)
        });
        match r {
            Ok(Ok(())) => {}
            Ok(Err(f)) => return Some((idx, f)),
            Err(p) => {
                return Some((
                    idx,
                    Failure { class: "panic", site: format!("{} in {}", op.kind(), panic_site(&p)), detail: format!("panic during/after {}: {p}", op.name()) },
                ))
            }
        }
        if record_sigs {
            rep.sig(&format!("{}|{}>{}", op.kind(), pre, model.shape(&NAMES)));
        }
    }
    None
}

fn report_failure(rep: &mut Reporter, ops: &[Op], idx: usize, f: Failure) {
    // shrink: drop ops that are not needed for the same failure class+site
    let mut cur: Vec<Op> = ops[..=idx].to_vec();
    let mut i = 0;
    while i + 1 < cur.len() {
        let mut cand = cur.clone();
        cand.remove(i);
        let mut st = Stats::default();
        let mut same = false;
        if let Some((_, g)) = run_seq_quiet(&cand, &mut st) {
            same = g.class == f.class && g.site == f.site;
        }
        if same {
            cur = cand;
        } else {
            i += 1;
        }
    }
    let names: Vec<String> = cur.iter().map(|o| o.name()).collect();
    rep.violation(
        f.class,
        &f.site,
        &format!("{} — minimal sequence: {}", f.detail, names.join(" ; ")),
        json!({"ops": names}),
    );
}

fn run_seq_quiet(ops: &[Op], stats: &mut Stats) -> Option<(usize, Failure)> {
    let mut map = HeaderMap::new();
    let mut model = MultiMap::default();
    let mut next_id = 0u64;
    for (idx, &op) in ops.iter().enumerate() {
        let r = guard(|| {
            apply(op, &mut map, &mut model, &mut next_id, stats)?;
            check_all(&map, &model, stats)
        });
        match r {
            Ok(Ok(())) => {}
            Ok(Err(f)) => return Some((idx, f)),
            Err(p) => return Some((idx, Failure { class: "panic", site: format!("{} in {}", op.kind(), panic_site(&p)), detail: p })),
        }
    }
    None
}

fn parse_op(s: &str) -> Option<Op> {
    full_alphabet().into_iter().chain(alphabet()).find(|o| o.name() == s)
}

pub fn run(ctx: &Ctx, rep: &mut Reporter) {
    let mut stats = Stats::default();

    if let Some(rp) = &ctx.replay {
        let ops: Vec<Op> = rp["ops"].as_array().map(|a| a.iter().filter_map(|v| v.as_str().and_then(parse_op)).collect()).unwrap_or_default();
        rep.eval();
        if let Some((idx, f)) = run_seq(&ops, &mut stats, rep, true) {
            report_failure(rep, &ops, idx, f);
        }
        rep.sig("replay");
        rep.sig("replay2");
        return;
    }

    // Phase 1: exhaustive enumeration of every sequence over the alphabet up to `depth`.
    let alpha = alphabet();
    let depth: usize = if ctx.is_miri() { 3 } else if ctx.thorough() { 7 } else { 5 };
    let a = alpha.len();
    let total: u64 = (a as u64).pow(depth as u32);
    let mut seq = vec![alpha[0]; depth];
    let mut complete = true;
    // Only full-depth sequences are run: every shorter sequence is a prefix of one of them and
    // the comparison happens after every operation.
    let mut n = 0u64;
    for code in 0..total {
        // shard on the first two operations so shards share no work
        let prefix = code % (a as u64 * a as u64);
        if !ctx.mine(prefix) {
            continue;
        }
        if n % 4096 == 0 && ctx.out_of_time() {
            complete = false;
            break;
        }
        n += 1;
        let mut c = code;
        for slot in seq.iter_mut() {
            *slot = alpha[(c % a as u64) as usize];
            c /= a as u64;
        }
        rep.eval();
        if let Some((idx, f)) = run_seq(&seq, &mut stats, rep, n % 64 == 0) {
            report_failure(rep, &seq, idx, f);
        }
        if n == 1 || n == 777 {
            rep.sample("exhaustive-sequence", json!(seq.iter().map(|o| o.name()).collect::<Vec<_>>()));
        }
    }
    rep.exhaustive(&format!("all op sequences of length {depth} over {a} operation instances"), complete);
    rep.count("exhaustive_depth", 0);
    rep.max("exhaustive_depth", depth as u64);
    rep.max("alphabet_size", a as u64);

    // Phase 2: long random sequences over the full alphabet (three names, all spellings).
    let full = full_alphabet();
    let nseq = if ctx.is_miri() { 2 } else { ctx.share(3_000, 60_000) };
    let len = if ctx.is_miri() { 60 } else { 1000 };
    for s in 0..nseq {
        if ctx.out_of_time() {
            break;
        }
        let mut rng = Rng::derive(ctx.seed, 18, s * ctx.nshards + ctx.shard);
        // bias: some sequences avoid clear/drain so the map grows large and multi-valued
        let grow = rng.chance(1, 2);
        let ops: Vec<Op> = (0..len)
            .map(|_| loop {
                let o = *rng.pick(&full);
                if grow && matches!(o, Op::Clear | Op::Drain(_) | Op::RetainName(_)) && rng.chance(9, 10) {
                    continue;
                }
                break o;
            })
            .collect();
        rep.eval();
        rep.count("random_ops", len as u64);
        if let Some((idx, f)) = run_seq(&ops, &mut stats, rep, true) {
            report_failure(rep, &ops, idx, f);
        }
        if s == 0 {
            rep.sample("random-sequence-prefix", json!(ops.iter().take(12).map(|o| o.name()).collect::<Vec<_>>()));
        }
    }

    rep.count("lookups_compared", stats.lookups);
    rep.count("full_surface_checks", stats.full_checks);
    rep.count("removed_iterators_checked", stats.removed_iters);
    rep.count("removed_from_present", stats.removed_nonempty);
    rep.count("removed_from_absent", stats.removed_absent);
    rep.count("partial_drains", stats.drains_partial);
    if stats.removed_absent == 0 || stats.removed_nonempty == 0 || stats.full_checks == 0 {
        rep.inconclusive("a class of Removed iterator (absent/present) was never observed");
    }
}
