//! reference model `negotiate` — not built yet.
