//! Reference model of `Accept-Encoding` (RFC 7231 §5.3.4, list syntax of RFC 7230 §7), written
//! from the RFC text only.  It answers one question per content-coding: *may a response carry this
//! coding for this request?* — `Yes`, `No`, or `Ambiguous` where the header is malformed or
//! contradicts itself (the oracle then accepts any outcome and counts the case).  It never ranks:
//! "highest q preferred" is a SHOULD and the server's own preference order is its business.
//!
//! RFC 7231 §5.3.4:
//!  1. no `Accept-Encoding` field at all ⇒ any content-coding is acceptable;
//!  2. no content-coding ("identity") is acceptable by default unless specifically excluded by
//!     `identity;q=0`, or by `*;q=0` without a more specific entry for `identity`;
//!  3. a coding listed in the field is acceptable unless its qvalue is 0; `*` matches every coding
//!     not explicitly listed;
//!  4. an empty combined field value means the user agent wants no content-coding (identity only).
//! A coding that is neither listed nor matched by `*` is not acceptable (identity excepted, rule 2).

use std::collections::BTreeMap;

#[derive(Clone, Copy, Debug, PartialEq, Eq)]
pub enum Verdict {
    Yes,
    No,
    /// malformed or self-contradictory header: the RFC gives no single answer
    Ambiguous,
}

#[derive(Clone, Debug, Default)]
pub struct AcceptEncoding {
    /// at least one `Accept-Encoding` field line was present
    pub present: bool,
    /// some list element did not match `codings [ weight ]`
    pub malformed: bool,
    /// (lower-cased coding or "*", q in thousandths) in order of appearance
    pub items: Vec<(String, u16)>,
}

fn is_tchar(b: u8) -> bool {
    b.is_ascii_alphanumeric() || b"!#$%&'*+-.^_`|~".contains(&b)
}

fn trim_ows(mut s: &[u8]) -> &[u8] {
    while let [b' ' | b'\t', rest @ ..] = s {
        s = rest;
    }
    while let [rest @ .., b' ' | b'\t'] = s {
        s = rest;
    }
    s
}

/// qvalue = ( "0" [ "." 0*3DIGIT ] ) / ( "1" [ "." 0*3("0") ] )   → thousandths
fn parse_qvalue(s: &[u8]) -> Option<u16> {
    let (&first, rest) = s.split_first()?;
    if first != b'0' && first != b'1' {
        return None;
    }
    let mut q = (first - b'0') as u16 * 1000;
    if rest.is_empty() {
        return Some(q);
    }
    if rest[0] != b'.' || rest.len() > 4 {
        return None;
    }
    let mut scale = 100;
    for &d in &rest[1..] {
        if !d.is_ascii_digit() || (first == b'1' && d != b'0') {
            return None;
        }
        q += (d - b'0') as u16 * scale;
        scale /= 10;
    }
    Some(q)
}

/// element = codings [ OWS ";" OWS "q=" qvalue ]      ("q" is case-insensitive, RFC 5234 §2.3)
fn parse_element(e: &[u8]) -> Option<(String, u16)> {
    let n = e.iter().take_while(|&&b| is_tchar(b)).count();
    if n == 0 {
        return None;
    }
    let coding = String::from_utf8_lossy(&e[..n]).to_ascii_lowercase();
    if coding.contains('*') && coding != "*" {
        // "*" is a tchar, so "gz*" is a syntactically valid token; nothing defines its meaning
        return None;
    }
    let rest = trim_ows(&e[n..]);
    if rest.is_empty() {
        return Some((coding, 1000));
    }
    if rest[0] != b';' {
        return None;
    }
    let w = trim_ows(&rest[1..]);
    if w.len() < 3 || !(w[0] == b'q' || w[0] == b'Q') || w[1] != b'=' {
        return None;
    }
    Some((coding, parse_qvalue(&w[2..])?))
}

/// `lines`: the values of every `Accept-Encoding` field line of the request, in order.
pub fn parse(lines: &[&[u8]]) -> AcceptEncoding {
    let mut ae = AcceptEncoding { present: !lines.is_empty(), ..Default::default() };
    for line in lines {
        for raw in line.split(|&b| b == b',') {
            let e = trim_ows(raw);
            if e.is_empty() {
                // RFC 7230 §7: recipients must accept a reasonable number of empty list elements
                continue;
            }
            match parse_element(e) {
                Some(it) => ae.items.push(it),
                None => ae.malformed = true,
            }
        }
    }
    ae
}

impl AcceptEncoding {
    fn explicit(&self, name: &str) -> Option<Verdict> {
        let mut v: Option<Verdict> = None;
        for (c, q) in &self.items {
            if c == name {
                let this = if *q > 0 { Verdict::Yes } else { Verdict::No };
                v = Some(match v {
                    None => this,
                    Some(prev) if prev == this => this,
                    Some(_) => Verdict::Ambiguous,
                });
            }
        }
        v
    }

    /// May the response use content-coding `coding` (lower case; "identity" = no coding)?
    pub fn permits(&self, coding: &str) -> Verdict {
        if !self.present {
            return Verdict::Yes;
        }
        if self.malformed {
            return Verdict::Ambiguous;
        }
        if let Some(v) = self.explicit(coding) {
            return v;
        }
        match self.explicit("*") {
            Some(v) => v,
            None if coding == "identity" => Verdict::Yes,
            None => Verdict::No,
        }
    }

    /// Is `coding` acceptable only through the wildcard (not named in the header)?
    pub fn via_wildcard(&self, coding: &str) -> bool {
        self.present && !self.malformed && self.explicit(coding).is_none() && self.explicit("*") == Some(Verdict::Yes)
    }

    /// Verdict for every coding of `supported`.
    pub fn verdicts(&self, supported: &[&str]) -> BTreeMap<String, Verdict> {
        supported.iter().map(|c| (c.to_string(), self.permits(c))).collect()
    }

    /// The weight (thousandths) that applies to `coding`: the largest q of the items naming it,
    /// else the largest q of a `*` item, else None.  Used for statistics only.
    pub fn q_of(&self, coding: &str) -> Option<u16> {
        let named = self.items.iter().filter(|(c, _)| c == coding).map(|x| x.1).max();
        named.or_else(|| self.items.iter().filter(|(c, _)| c == "*").map(|x| x.1).max())
    }
}

/// Self-check against the examples of RFC 7231 §5.3.4 and the rules above.  Returns the first
/// failing example.
pub fn self_check() -> Result<(), String> {
    use Verdict::*;
    let cases: &[(&[&str], &[(&str, Verdict)])] = &[
        (&[], &[("gzip", Yes), ("identity", Yes), ("br", Yes)]),
        (&[""], &[("gzip", No), ("identity", Yes)]),
        (&["compress, gzip"], &[("gzip", Yes), ("compress", Yes), ("br", No), ("identity", Yes)]),
        (&["*"], &[("gzip", Yes), ("identity", Yes)]),
        (&["compress;q=0.5, gzip;q=1.0"], &[("gzip", Yes), ("compress", Yes), ("deflate", No), ("identity", Yes)]),
        (&["gzip;q=1.0, identity; q=0.5, *;q=0"], &[("gzip", Yes), ("identity", Yes), ("br", No)]),
        (&["gzip, *;q=0"], &[("gzip", Yes), ("identity", No), ("br", No)]),
        (&["identity;q=0"], &[("identity", No), ("gzip", No)]),
        (&["*;q=0.5, identity;q=0"], &[("identity", No), ("gzip", Yes), ("br", Yes)]),
        (&["identity;q=0, *"], &[("identity", No), ("zstd", Yes)]),
        (&["*;q=0, identity;q=0.001"], &[("identity", Yes), ("gzip", No)]),
        (&["GZip ; Q=0.000 ,, br"], &[("gzip", No), ("br", Yes), ("identity", Yes)]),
        (&["gzip;q=0", "gzip"], &[("gzip", Ambiguous), ("identity", Yes)]),
        (&["gzip", "br;q=0"], &[("gzip", Yes), ("br", No)]),
        (&["gzip;q=1.001"], &[("gzip", Ambiguous), ("identity", Ambiguous)]),
        (&["gzip;q=0.5555"], &[("gzip", Ambiguous)]),
        (&["gzip;q=.5"], &[("gzip", Ambiguous)]),
        (&["gzip;level=3"], &[("gzip", Ambiguous)]),
        (&["gzip br"], &[("gzip", Ambiguous)]),
        (&["gzip;q=1.000, br;q=0.001"], &[("gzip", Yes), ("br", Yes)]),
    ];
    for (lines, want) in cases {
        let raw: Vec<&[u8]> = lines.iter().map(|s| s.as_bytes()).collect();
        let ae = parse(&raw);
        for (c, v) in want.iter() {
            let got = ae.permits(c);
            if got != *v {
                return Err(format!("Accept-Encoding {:?}: permits({c}) = {:?}, RFC reading says {:?}", lines, got, v));
            }
        }
    }
    Ok(())
}
