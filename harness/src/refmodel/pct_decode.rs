//! Reference for C10 / C09: partial percent-decoding.
//!
//! Rule (from the `Quoter` documentation): scanning left to right, every `%XY` with two hex digits
//! (either case) whose value is **not** a protected ASCII byte is replaced by that byte; everything
//! else — protected escapes, incomplete or invalid escapes, plain bytes — is copied unchanged.  The
//! output is not rescanned (`%2541` with `%` unprotected gives `%41`).

/// The protected set used for request paths (`Url::new`): `%`, `/`, `+` stay encoded.
pub const PATH_PROTECTED: &[u8] = b"%/+";

fn hexval(b: u8) -> Option<u8> {
    match b {
        b'0'..=b'9' => Some(b - b'0'),
        b'a'..=b'f' => Some(b - b'a' + 10),
        b'A'..=b'F' => Some(b - b'A' + 10),
        _ => None,
    }
}

#[derive(Clone, Debug, Default, PartialEq, Eq)]
pub struct Decoded {
    pub out: Vec<u8>,
    /// escapes replaced
    pub decoded: usize,
    /// valid escapes left alone because their value is protected
    pub kept_protected: usize,
    /// `%` not followed by two hex digits
    pub invalid: usize,
}

pub fn decode(input: &[u8], protected: &[u8]) -> Decoded {
    let mut d = Decoded { out: Vec::with_capacity(input.len()), ..Default::default() };
    let mut i = 0;
    while i < input.len() {
        if input[i] == b'%' {
            let v = if i + 2 < input.len() {
                match (hexval(input[i + 1]), hexval(input[i + 2])) {
                    (Some(h), Some(l)) => Some(h * 16 + l),
                    _ => None,
                }
            } else {
                None
            };
            match v {
                Some(b) if b < 128 && protected.contains(&b) => d.kept_protected += 1,
                Some(b) => {
                    d.out.push(b);
                    d.decoded += 1;
                    i += 3;
                    continue;
                }
                None => d.invalid += 1,
            }
        }
        d.out.push(input[i]);
        i += 1;
    }
    d
}

/// What `Quoter::requote` must return: `None` exactly when nothing was decoded.
pub fn requote(input: &[u8], protected: &[u8]) -> Option<Vec<u8>> {
    let d = decode(input, protected);
    if d.decoded == 0 {
        None
    } else {
        Some(d.out)
    }
}

/// The routing view of a request path: partially decoded, then made valid UTF-8 lossily.
pub fn path_view(raw: &str) -> String {
    match requote(raw.as_bytes(), PATH_PROTECTED) {
        Some(b) => String::from_utf8_lossy(&b).into_owned(),
        None => raw.to_string(),
    }
}

/// Full decoding (no protected bytes), lossy: what the path deserializer hands to `String` fields.
pub fn full_view(raw: &str) -> String {
    match requote(raw.as_bytes(), b"") {
        Some(b) => String::from_utf8_lossy(&b).into_owned(),
        None => raw.to_string(),
    }
}
