//! reference model `pct_decode` — not built yet.
