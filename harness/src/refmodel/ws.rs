//! Reference model for C14: RFC 6455 frames (§5) and the opening-handshake accept key (§4.2.2),
//! written from the RFC text.  Shares no code with the repository and uses no crate for SHA-1 or
//! base64 (both are written out below and self-checked against published vectors).
//!
//! The decoder is a *judge*, not a codec: for every frame of a byte stream it says what a strict
//! receiver of the given role must do (`Outcome`), and where the RFC or the property statement
//! leaves latitude it says which two behaviours are acceptable.

// ------------------------------------------------------------------------------------------------
// SHA-1 (FIPS 180-4) and base64 (RFC 4648 §4)
// ------------------------------------------------------------------------------------------------

pub fn sha1(msg: &[u8]) -> [u8; 20] {
    let mut h: [u32; 5] = [0x6745_2301, 0xEFCD_AB89, 0x98BA_DCFE, 0x1032_5476, 0xC3D2_E1F0];
    let bit_len = (msg.len() as u64).wrapping_mul(8);
    let mut data = msg.to_vec();
    data.push(0x80);
    while data.len() % 64 != 56 {
        data.push(0);
    }
    data.extend_from_slice(&bit_len.to_be_bytes());
    for block in data.chunks(64) {
        let mut w = [0u32; 80];
        for t in 0..16 {
            w[t] = u32::from_be_bytes([block[4 * t], block[4 * t + 1], block[4 * t + 2], block[4 * t + 3]]);
        }
        for t in 16..80 {
            w[t] = (w[t - 3] ^ w[t - 8] ^ w[t - 14] ^ w[t - 16]).rotate_left(1);
        }
        let (mut a, mut b, mut c, mut d, mut e) = (h[0], h[1], h[2], h[3], h[4]);
        for (t, wt) in w.iter().enumerate() {
            let (f, k) = match t {
                0..=19 => ((b & c) | (!b & d), 0x5A82_7999u32),
                20..=39 => (b ^ c ^ d, 0x6ED9_EBA1),
                40..=59 => ((b & c) | (b & d) | (c & d), 0x8F1B_BCDC),
                _ => (b ^ c ^ d, 0xCA62_C1D6),
            };
            let tmp = a.rotate_left(5).wrapping_add(f).wrapping_add(e).wrapping_add(k).wrapping_add(*wt);
            e = d;
            d = c;
            c = b.rotate_left(30);
            b = a;
            a = tmp;
        }
        h[0] = h[0].wrapping_add(a);
        h[1] = h[1].wrapping_add(b);
        h[2] = h[2].wrapping_add(c);
        h[3] = h[3].wrapping_add(d);
        h[4] = h[4].wrapping_add(e);
    }
    let mut out = [0u8; 20];
    for i in 0..5 {
        out[4 * i..4 * i + 4].copy_from_slice(&h[i].to_be_bytes());
    }
    out
}

const B64: &[u8; 64] = b"ABCDEFGHIJKLMNOPQRSTUVWXYZabcdefghijklmnopqrstuvwxyz0123456789+/";

pub fn base64(data: &[u8]) -> String {
    let mut out = String::with_capacity(data.len().div_ceil(3) * 4);
    for chunk in data.chunks(3) {
        let b0 = chunk[0] as u32;
        let b1 = *chunk.get(1).unwrap_or(&0) as u32;
        let b2 = *chunk.get(2).unwrap_or(&0) as u32;
        let n = (b0 << 16) | (b1 << 8) | b2;
        out.push(B64[(n >> 18) as usize & 63] as char);
        out.push(B64[(n >> 12) as usize & 63] as char);
        out.push(if chunk.len() > 1 { B64[(n >> 6) as usize & 63] as char } else { '=' });
        out.push(if chunk.len() > 2 { B64[n as usize & 63] as char } else { '=' });
    }
    out
}

pub const WS_GUID: &[u8] = b"258EAFA5-E914-47DA-95CA-C5AB0DC85B11";

/// `Sec-WebSocket-Accept` for a `Sec-WebSocket-Key` value (RFC 6455 §4.2.2 step 5.4).
pub fn accept_key(key: &[u8]) -> String {
    let mut v = key.to_vec();
    v.extend_from_slice(WS_GUID);
    base64(&sha1(&v))
}

fn hex20(d: [u8; 20]) -> String {
    d.iter().map(|b| format!("{:02x}", b)).collect()
}

/// Published vectors: RFC 6455 §1.3 accept key, FIPS 180 SHA-1 examples, RFC 4648 §10 base64.
pub fn self_check() -> Result<(), String> {
    let a = accept_key(b"dGhlIHNhbXBsZSBub25jZQ==");
    if a != "s3pPLMBiTxaQ9kYGzzhZRbK+xOo=" {
        return Err(format!("RFC 6455 accept-key vector: got {a}"));
    }
    let sha: [(&[u8], &str); 3] = [
        (b"", "da39a3ee5e6b4b0d3255bfef95601890afd80709"),
        (b"abc", "a9993e364706816aba3e25717850c26c9cd0d89d"),
        (
            b"abcdbcdecdefdefgefghfghighijhijkijkljklmklmnlmnomnopnopq",
            "84983e441c3bd26ebaae4aa1f95129e5e54670f1",
        ),
    ];
    for (m, want) in sha {
        let got = hex20(sha1(m));
        if got != want {
            return Err(format!("SHA-1 vector {:?}: got {got}", String::from_utf8_lossy(m)));
        }
    }
    // a message whose padded form needs a second block (56..=63 bytes) and an exact block
    let m64 = [b'a'; 64];
    if hex20(sha1(&m64)) != "0098ba824b5c16427bd7a1122a5a442a25ec644d" {
        return Err("SHA-1 vector 64×'a'".into());
    }
    let b64: [(&[u8], &str); 7] = [
        (b"", ""),
        (b"f", "Zg=="),
        (b"fo", "Zm8="),
        (b"foo", "Zm9v"),
        (b"foob", "Zm9vYg=="),
        (b"fooba", "Zm9vYmE="),
        (b"foobar", "Zm9vYmFy"),
    ];
    for (m, want) in b64 {
        if base64(m) != want {
            return Err(format!("base64 vector {:?}", String::from_utf8_lossy(m)));
        }
    }
    // frame vectors of RFC 6455 §5.7
    let hello_unmasked = [0x81u8, 0x05, 0x48, 0x65, 0x6c, 0x6c, 0x6f];
    let hello_masked = [0x81u8, 0x85, 0x37, 0xfa, 0x21, 0x3d, 0x7f, 0x9f, 0x4d, 0x51, 0x58];
    let f = RFrame { fin: true, rsv: 0, opcode: 1, mask: None, payload: b"Hello".to_vec() };
    if encode(&f, LenEnc::Minimal) != hello_unmasked {
        return Err("RFC 6455 §5.7 unmasked Hello".into());
    }
    let f = RFrame { mask: Some([0x37, 0xfa, 0x21, 0x3d]), ..f };
    if encode(&f, LenEnc::Minimal) != hello_masked {
        return Err("RFC 6455 §5.7 masked Hello".into());
    }
    let h = parse_header(&hello_masked).ok_or("header of masked Hello")?;
    if h.len != 5 || h.header_len != 6 || !h.fin || h.opcode != 1 || h.mask != Some([0x37, 0xfa, 0x21, 0x3d]) {
        return Err("parse_header(masked Hello)".into());
    }
    let big = RFrame { fin: true, rsv: 0, opcode: 2, mask: None, payload: vec![0; 256] };
    if encode(&big, LenEnc::Minimal)[..4] != [0x82, 0x7E, 0x01, 0x00] {
        return Err("RFC 6455 §5.7 256-byte binary header".into());
    }
    let big = RFrame { payload: vec![0; 65536], ..big };
    if encode(&big, LenEnc::Minimal)[..10] != [0x82, 0x7F, 0, 0, 0, 0, 0, 1, 0, 0] {
        return Err("RFC 6455 §5.7 64KiB binary header".into());
    }
    Ok(())
}

// ------------------------------------------------------------------------------------------------
// Frames
// ------------------------------------------------------------------------------------------------

pub const OP_CONT: u8 = 0;
pub const OP_TEXT: u8 = 1;
pub const OP_BINARY: u8 = 2;
pub const OP_CLOSE: u8 = 8;
pub const OP_PING: u8 = 9;
pub const OP_PONG: u8 = 10;

pub fn is_control(op: u8) -> bool {
    op & 0x8 != 0
}
pub fn is_reserved(op: u8) -> bool {
    !matches!(op, 0 | 1 | 2 | 8 | 9 | 10)
}

/// One frame as its sender means it (payload is the *unmasked* application data).
#[derive(Clone, Debug, PartialEq, Eq)]
pub struct RFrame {
    pub fin: bool,
    /// RSV1..3 in bits 2..0
    pub rsv: u8,
    pub opcode: u8,
    pub mask: Option<[u8; 4]>,
    pub payload: Vec<u8>,
}

#[derive(Clone, Copy, Debug, PartialEq, Eq)]
pub enum LenEnc {
    /// the shortest form, as §5.2 requires
    Minimal,
    /// force the 16-bit form (only if the length fits)
    Ext16,
    /// force the 64-bit form
    Ext64,
}

pub fn xor_mask(data: &mut [u8], mask: [u8; 4]) {
    for (i, b) in data.iter_mut().enumerate() {
        *b ^= mask[i % 4];
    }
}

/// Header bytes announcing `len` payload bytes (no payload appended): used for hostile frames
/// whose payload never arrives.
pub fn header(fin: bool, rsv: u8, opcode: u8, mask: Option<[u8; 4]>, len: u64, enc: LenEnc) -> Vec<u8> {
    let mut out = Vec::with_capacity(14);
    out.push((if fin { 0x80 } else { 0 }) | ((rsv & 7) << 4) | (opcode & 0x0f));
    let mbit = if mask.is_some() { 0x80u8 } else { 0 };
    let form = match enc {
        LenEnc::Minimal => {
            if len <= 125 {
                0
            } else if len <= 0xFFFF {
                1
            } else {
                2
            }
        }
        LenEnc::Ext16 if len <= 0xFFFF => 1,
        LenEnc::Ext16 => 2,
        LenEnc::Ext64 => 2,
    };
    match form {
        0 => out.push(mbit | len as u8),
        1 => {
            out.push(mbit | 126);
            out.extend_from_slice(&(len as u16).to_be_bytes());
        }
        _ => {
            out.push(mbit | 127);
            out.extend_from_slice(&len.to_be_bytes());
        }
    }
    if let Some(m) = mask {
        out.extend_from_slice(&m);
    }
    out
}

pub fn encode(f: &RFrame, enc: LenEnc) -> Vec<u8> {
    let mut out = header(f.fin, f.rsv, f.opcode, f.mask, f.payload.len() as u64, enc);
    let at = out.len();
    out.extend_from_slice(&f.payload);
    if let Some(m) = f.mask {
        xor_mask(&mut out[at..], m);
    }
    out
}

#[derive(Clone, Debug, PartialEq, Eq)]
pub struct Header {
    pub fin: bool,
    pub rsv: u8,
    pub opcode: u8,
    pub mask: Option<[u8; 4]>,
    pub len: u64,
    /// bytes before the payload
    pub header_len: usize,
    /// 0 = 7-bit, 1 = 16-bit, 2 = 64-bit length form
    pub form: u8,
    /// the length uses the shortest form and (64-bit form) its top bit is clear
    pub minimal: bool,
}

/// How many bytes the header starting at `buf[0]` has, if that can be told yet.
pub fn header_len(buf: &[u8]) -> Option<usize> {
    if buf.len() < 2 {
        return None;
    }
    let ext = match buf[1] & 0x7f {
        126 => 2,
        127 => 8,
        _ => 0,
    };
    Some(2 + ext + if buf[1] & 0x80 != 0 { 4 } else { 0 })
}

/// Parse a complete header; `None` while bytes are missing.
pub fn parse_header(buf: &[u8]) -> Option<Header> {
    let hl = header_len(buf)?;
    if buf.len() < hl {
        return None;
    }
    let l7 = buf[1] & 0x7f;
    let (len, form, mut at) = match l7 {
        126 => (u16::from_be_bytes([buf[2], buf[3]]) as u64, 1u8, 4usize),
        127 => {
            let mut b = [0u8; 8];
            b.copy_from_slice(&buf[2..10]);
            (u64::from_be_bytes(b), 2, 10)
        }
        n => (n as u64, 0, 2),
    };
    let mask = if buf[1] & 0x80 != 0 {
        let m = [buf[at], buf[at + 1], buf[at + 2], buf[at + 3]];
        at += 4;
        Some(m)
    } else {
        None
    };
    debug_assert_eq!(at, hl);
    let minimal = match form {
        0 => true,
        1 => len > 125,
        _ => len > 0xFFFF && len >> 63 == 0,
    };
    Some(Header { fin: buf[0] & 0x80 != 0, rsv: (buf[0] >> 4) & 7, opcode: buf[0] & 0x0f, mask, len, header_len: hl, form, minimal })
}

// ------------------------------------------------------------------------------------------------
// The judge
// ------------------------------------------------------------------------------------------------

/// What a receiver hands to the application for one frame (fragment-level view, which is what the
/// property's codec exposes).
#[derive(Clone, Debug, PartialEq, Eq)]
pub enum Delivery {
    Text(Vec<u8>),
    Binary(Vec<u8>),
    FirstText(Vec<u8>),
    FirstBinary(Vec<u8>),
    Continue(Vec<u8>),
    Last(Vec<u8>),
    Ping(Vec<u8>),
    Pong(Vec<u8>),
    /// close code and reason bytes; `None` for an empty close body
    Close(Option<(u16, Vec<u8>)>),
}

impl Delivery {
    pub fn kind(&self) -> &'static str {
        match self {
            Delivery::Text(_) => "text",
            Delivery::Binary(_) => "binary",
            Delivery::FirstText(_) => "first-text",
            Delivery::FirstBinary(_) => "first-binary",
            Delivery::Continue(_) => "continue",
            Delivery::Last(_) => "last",
            Delivery::Ping(_) => "ping",
            Delivery::Pong(_) => "pong",
            Delivery::Close(_) => "close",
        }
    }
    /// number of application payload bytes carried
    pub fn size(&self) -> usize {
        match self {
            Delivery::Text(p)
            | Delivery::Binary(p)
            | Delivery::FirstText(p)
            | Delivery::FirstBinary(p)
            | Delivery::Continue(p)
            | Delivery::Last(p)
            | Delivery::Ping(p)
            | Delivery::Pong(p) => p.len(),
            Delivery::Close(None) => 0,
            Delivery::Close(Some((_, r))) => 2 + r.len(),
        }
    }
}

/// The protocol violations the property names.
#[derive(Clone, Copy, Debug, PartialEq, Eq)]
pub enum Reject {
    UnmaskedToServer,
    MaskedToClient,
    ReservedOpcode,
    ControlFragmented,
    ControlTooLong,
    ContinuationWithoutStart,
    StartInsideFragmented,
    /// payload length above the configured maximum: to be refused from the header alone
    TooBig,
}

impl Reject {
    pub fn name(&self) -> &'static str {
        match self {
            Reject::UnmaskedToServer => "unmasked-to-server",
            Reject::MaskedToClient => "masked-to-client",
            Reject::ReservedOpcode => "reserved-opcode",
            Reject::ControlFragmented => "control-fragmented",
            Reject::ControlTooLong => "control-too-long",
            Reject::ContinuationWithoutStart => "continuation-without-start",
            Reject::StartInsideFragmented => "start-inside-fragmented",
            Reject::TooBig => "too-big",
        }
    }
}

/// Things the RFC forbids or leaves open but the property statement does not name: the receiver
/// may fail the connection or deliver; which one happened is counted, not judged.
#[derive(Clone, Copy, Debug, PartialEq, Eq)]
pub enum Latitude {
    RsvBits,
    NonMinimalLength,
    /// close body of exactly one byte (no room for a code)
    CloseBodyOneByte,
    /// close body over 125 bytes turned into a bare protocol close
    CloseTooLong,
    /// close code that must not appear on the wire (§7.4.1/7.4.2)
    CloseCodeNotForWire,
    /// text / close reason that is not UTF-8 (the codec documents it does not validate)
    InvalidUtf8,
}

impl Latitude {
    pub fn name(&self) -> &'static str {
        match self {
            Latitude::RsvBits => "rsv-bits",
            Latitude::NonMinimalLength => "non-minimal-length",
            Latitude::CloseBodyOneByte => "close-body-1-byte",
            Latitude::CloseTooLong => "close-over-125",
            Latitude::CloseCodeNotForWire => "close-code-not-for-wire",
            Latitude::InvalidUtf8 => "invalid-utf8",
        }
    }
}

#[derive(Clone, Debug, PartialEq, Eq)]
pub enum Outcome {
    /// the receiver must deliver exactly this
    Deliver(Delivery),
    /// the receiver must report an error, at the latest when the whole frame has arrived
    Reject(Reject),
    /// the receiver must report an error as soon as the header has arrived (no waiting for payload)
    RejectAtHeader(Reject),
    /// error or this delivery are both acceptable
    Either(Delivery, Latitude),
}

#[derive(Clone, Debug)]
pub struct Judged {
    pub start: usize,
    /// first payload byte (header complete once this many stream bytes arrived)
    pub hdr_end: usize,
    /// one past the last payload byte; may lie beyond the end of the stream
    pub end: u64,
    pub header: Header,
    /// receiver was inside a fragmented message when this frame started
    pub in_frag: bool,
    pub outcome: Outcome,
}

#[derive(Clone, Debug, Default)]
pub struct Judgement {
    /// frames whose header is completely inside the stream, in order, up to and including the
    /// first one that must be rejected (or whose payload is incomplete)
    pub frames: Vec<Judged>,
    /// bytes after the last listed frame: an incomplete header (possibly empty)
    pub tail_start: usize,
    /// for an incomplete *header* at the tail: a violation already visible in its first two bytes
    /// (an early error is acceptable there, silence too)
    pub tail_doomed: Option<Reject>,
    /// header of an acceptable frame at the tail whose payload has not arrived completely
    pub pending: Option<Header>,
}

pub fn valid_wire_close_code(code: u16) -> bool {
    matches!(code, 1000..=1003 | 1007..=1014 | 3000..=4999)
}

/// Violations visible in the first two header bytes (role, opcode, FIN, 7-bit length, fragment state).
fn early_reject(b0: u8, b1: u8, server: bool, in_fragmented: bool) -> Option<Reject> {
    let masked = b1 & 0x80 != 0;
    let op = b0 & 0x0f;
    let fin = b0 & 0x80 != 0;
    if server && !masked {
        return Some(Reject::UnmaskedToServer);
    }
    if !server && masked {
        return Some(Reject::MaskedToClient);
    }
    if is_reserved(op) {
        return Some(Reject::ReservedOpcode);
    }
    if is_control(op) {
        // an over-long close is the documented exception (see Latitude::CloseTooLong), FIN or not;
        // its length is only known once the whole length field arrived
        if !fin && !(op == OP_CLOSE && b1 & 0x7f > 125) {
            return Some(Reject::ControlFragmented);
        }
    } else if op == OP_CONT {
        if !in_fragmented {
            return Some(Reject::ContinuationWithoutStart);
        }
    } else if in_fragmented {
        return Some(Reject::StartInsideFragmented);
    }
    None
}

/// Judge a whole byte stream arriving at a receiver of the given role with the given maximum
/// payload size, starting outside any fragmented message.
pub fn judge(stream: &[u8], server: bool, max_size: u64) -> Judgement {
    let mut j = Judgement::default();
    let mut at = 0usize;
    let mut in_frag = false;
    loop {
        j.tail_start = at;
        let rest = &stream[at..];
        let Some(h) = parse_header(rest) else {
            if rest.len() >= 2 {
                j.tail_doomed = early_reject(rest[0], rest[1], server, in_frag);
            }
            return j;
        };
        let hdr_end = at + h.header_len;
        let frag_before = in_frag;
        let end = hdr_end as u64 + h.len.min(u64::MAX - hdr_end as u64);
        let complete = end <= stream.len() as u64;
        let outcome = if h.len > max_size || h.len >> 63 != 0 {
            // whatever else is wrong with it, it must be refused from the header alone
            Outcome::RejectAtHeader(Reject::TooBig)
        } else if let Some(r) = early_reject(rest[0], rest[1], server, in_frag) {
            Outcome::Reject(r)
        } else if is_control(h.opcode) && h.len > 125 && h.opcode != OP_CLOSE {
            Outcome::Reject(Reject::ControlTooLong)
        } else if h.opcode == OP_CLOSE && !h.fin && h.len <= 125 {
            // non-minimal length form hid the real length from the two-byte check
            Outcome::Reject(Reject::ControlFragmented)
        } else if !complete {
            // acceptable so far, payload still to come: nothing to deliver, nothing to reject
            j.tail_start = at;
            j.pending = Some(h);
            return j;
        } else {
            let mut payload = stream[hdr_end..end as usize].to_vec();
            if let Some(m) = h.mask {
                xor_mask(&mut payload, m);
            }
            let mut lat: Option<Latitude> = None;
            if h.rsv != 0 {
                lat = Some(Latitude::RsvBits);
            } else if !h.minimal {
                lat = Some(Latitude::NonMinimalLength);
            }
            let d = match (h.opcode, h.fin) {
                (OP_TEXT, true) => {
                    if lat.is_none() && std::str::from_utf8(&payload).is_err() {
                        lat = Some(Latitude::InvalidUtf8);
                    }
                    Delivery::Text(payload)
                }
                (OP_BINARY, true) => Delivery::Binary(payload),
                (OP_TEXT, false) => {
                    in_frag = true;
                    Delivery::FirstText(payload)
                }
                (OP_BINARY, false) => {
                    in_frag = true;
                    Delivery::FirstBinary(payload)
                }
                (OP_CONT, false) => Delivery::Continue(payload),
                (OP_CONT, true) => {
                    in_frag = false;
                    Delivery::Last(payload)
                }
                (OP_PING, _) => Delivery::Ping(payload),
                (OP_PONG, _) => Delivery::Pong(payload),
                _ => {
                    // close
                    if payload.len() > 125 {
                        lat = lat.or(Some(Latitude::CloseTooLong));
                        Delivery::Close(None)
                    } else if payload.is_empty() {
                        Delivery::Close(None)
                    } else if payload.len() == 1 {
                        lat = lat.or(Some(Latitude::CloseBodyOneByte));
                        Delivery::Close(None)
                    } else {
                        let code = u16::from_be_bytes([payload[0], payload[1]]);
                        if !valid_wire_close_code(code) {
                            lat = lat.or(Some(Latitude::CloseCodeNotForWire));
                        }
                        if std::str::from_utf8(&payload[2..]).is_err() {
                            lat = lat.or(Some(Latitude::InvalidUtf8));
                        }
                        Delivery::Close(Some((code, payload[2..].to_vec())))
                    }
                }
            };
            match lat {
                None => Outcome::Deliver(d),
                Some(l) => Outcome::Either(d, l),
            }
        };
        let stop = matches!(outcome, Outcome::Reject(_) | Outcome::RejectAtHeader(_));
        j.frames.push(Judged { start: at, hdr_end, end, header: h, in_frag: frag_before, outcome });
        if stop {
            j.tail_start = stream.len();
            return j;
        }
        at = end as usize;
    }
}
