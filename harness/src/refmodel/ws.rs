//! reference model `ws` — not built yet.
