//! Independent reference models used as oracles.  None of these share code with the repository.
#![allow(dead_code)]
pub mod multimap;
pub mod h1_req;
pub mod h1_resp;
pub mod byte_channel;
pub mod route_tree;
pub mod seg_match;
pub mod pct_decode;
pub mod negotiate;
pub mod ws;
pub mod multipart_gen;
pub mod range;
