//! Independent reference models used as oracles.  None of these share code with the repository.
pub mod multimap;
pub mod h1_req;
pub mod h1_resp;
