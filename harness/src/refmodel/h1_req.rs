//! Reference HTTP/1 request-stream parser, written from RFC 7230 §3 (message format) and §3.3.3
//! (message body length), *not* from the repository's decoder.  It is deliberately strict and only
//! models the grammar the generators emit; anything else is reported as `Unmodelled` so that the
//! differential oracle is skipped instead of guessing (the metamorphic oracle still applies).

#[derive(Clone, Debug, PartialEq, Eq)]
pub enum Framing {
    None,
    Cl(u64),
    Chunked,
}

#[derive(Clone, Debug, PartialEq, Eq)]
pub struct RefReq {
    pub method: String,
    pub target: String,
    pub version: u8,
    /// (lower-case name, OWS-trimmed value), sorted
    pub headers: Vec<(String, Vec<u8>)>,
    pub body: Vec<u8>,
    pub framing: Framing,
    pub start: usize,
    pub head_end: usize,
    /// offset one past the last byte of the message (only meaningful for complete messages)
    pub end: usize,
    /// `Connection` semantics requested by the client
    pub wants_close: bool,
    pub expect_continue: bool,
}

#[derive(Clone, Debug, PartialEq, Eq)]
pub enum Terminal {
    /// the stream ends exactly at a message boundary
    Clean,
    /// the stream ends inside a message (head or body) that is well-formed so far
    Incomplete { in_body: bool },
    /// the message starting at `msg_start` must be rejected; `offset` is where the defect is
    Reject { msg_start: usize, offset: usize, in_body: bool, class: &'static str, too_large: bool },
    /// outside the modelled grammar: no differential verdict
    Unmodelled(&'static str),
}

#[derive(Clone, Debug)]
pub struct RefParse {
    pub reqs: Vec<RefReq>,
    /// a request whose head is valid but whose body is malformed / cut short: the application may
    /// legitimately have been invoked for it (with `body` = the well-formed prefix delivered so far)
    pub partial: Option<RefReq>,
    pub terminal: Terminal,
    /// structural regions: (start offset, class) sorted by offset; used to classify cut positions
    pub regions: Vec<(usize, &'static str)>,
}

pub const MAX_HEAD: usize = 131_072;
pub const AMBIGUOUS_FACTOR: usize = 3;
pub const AMBIGUOUS_HEAD: &str = "complete head above the input ceiling but within one large read of it";

#[derive(Clone, Copy, PartialEq, Eq, Debug)]
pub enum HeadLimit {
    /// definite verdicts only; the ambiguous zone is `Unmodelled(AMBIGUOUS_HEAD)`
    Strict,
    RejectAboveCeiling,
    Unlimited,
}
pub const MAX_HEADERS: usize = 96;

fn is_tchar(b: u8) -> bool {
    matches!(b, b'!' | b'#' | b'$' | b'%' | b'&' | b'\'' | b'*' | b'+' | b'-' | b'.' | b'^' | b'_' | b'`' | b'|' | b'~')
        || b.is_ascii_alphanumeric()
}

fn trim_ows(v: &[u8]) -> &[u8] {
    let mut a = 0;
    let mut b = v.len();
    while a < b && (v[a] == b' ' || v[a] == b'\t') {
        a += 1;
    }
    while b > a && (v[b - 1] == b' ' || v[b - 1] == b'\t') {
        b -= 1;
    }
    &v[a..b]
}

fn find(h: &[u8], from: usize, needle: &[u8]) -> Option<usize> {
    if h.len() < needle.len() || from > h.len() - needle.len() {
        return None;
    }
    (from..=h.len() - needle.len()).find(|&i| &h[i..i + needle.len()] == needle)
}

enum HeadOutcome {
    Ok(RefReq),
    Incomplete,
    Reject(usize, &'static str, bool),
    Unmodelled(&'static str),
}

fn parse_head(d: &[u8], start: usize, regions: &mut Vec<(usize, &'static str)>, limit: HeadLimit) -> HeadOutcome {
    let head_end = match find(d, start, b"\r\n\r\n") {
        Some(i) => i + 4,
        None => {
            // a bare LF or stray CR in what we have would be outside the modelled grammar
            if d.len() - start >= MAX_HEAD {
                return HeadOutcome::Reject(start, "head-too-large", true);
            }
            regions.push((start, "request-line-or-headers(incomplete)"));
            return HeadOutcome::Incomplete;
        }
    };
    // A complete head larger than the ceiling: whether the server sees the terminator before it
    // gives up depends on how much one read delivers (the check sits between reads), so up to
    // `AMBIGUOUS_FACTOR` x the ceiling both outcomes are legitimate.
    if head_end - start > MAX_HEAD {
        match limit {
            HeadLimit::Strict if head_end - start > MAX_HEAD * AMBIGUOUS_FACTOR => {
                return HeadOutcome::Reject(start, "head-too-large", true)
            }
            HeadLimit::Strict => return HeadOutcome::Unmodelled(AMBIGUOUS_HEAD),
            HeadLimit::RejectAboveCeiling => return HeadOutcome::Reject(start, "head-too-large", true),
            HeadLimit::Unlimited => {}
        }
    }
    let head = &d[start..head_end - 2]; // includes final CRLF of last header line
    // request line
    let rl_end = find(head, 0, b"\r\n").unwrap();
    let rl = &head[..rl_end];
    let parts: Vec<&[u8]> = rl.split(|&b| b == b' ').collect();
    if parts.len() != 3 {
        return HeadOutcome::Unmodelled("request line is not three SP-separated parts");
    }
    if parts[0].is_empty() || !parts[0].iter().all(|&b| is_tchar(b)) {
        return HeadOutcome::Unmodelled("method is not a token");
    }
    if parts[1].is_empty() || !parts[1].iter().all(|&b| (0x21..=0x7e).contains(&b)) {
        return HeadOutcome::Unmodelled("target has non-visible bytes");
    }
    let version = match parts[2] {
        b"HTTP/1.1" => 11,
        b"HTTP/1.0" => 10,
        _ => return HeadOutcome::Unmodelled("version not HTTP/1.0 or HTTP/1.1"),
    };
    regions.push((start, "request-line"));
    let method = String::from_utf8_lossy(parts[0]).to_string();
    if !matches!(method.as_str(), "GET" | "HEAD" | "POST" | "PUT" | "DELETE" | "OPTIONS" | "PATCH") {
        return HeadOutcome::Unmodelled("method outside the generated set");
    }
    let target = String::from_utf8_lossy(parts[1]).to_string();

    let mut headers: Vec<(String, Vec<u8>)> = vec![];
    let mut pos = rl_end + 2;
    while pos < head.len() {
        let le = find(head, pos, b"\r\n").unwrap();
        let line = &head[pos..le];
        let colon = match line.iter().position(|&b| b == b':') {
            Some(c) => c,
            None => return HeadOutcome::Unmodelled("header line without colon"),
        };
        let name = &line[..colon];
        if name.is_empty() || !name.iter().all(|&b| is_tchar(b)) {
            return HeadOutcome::Unmodelled("header name is not a token");
        }
        let value = &line[colon + 1..];
        if !value.iter().all(|&b| b == b'\t' || (0x20..=0x7e).contains(&b)) {
            return HeadOutcome::Unmodelled("header value has non-visible bytes");
        }
        regions.push((start + pos, "header-name"));
        regions.push((start + pos + colon, "header-value"));
        regions.push((start + le, "header-crlf"));
        headers.push((String::from_utf8_lossy(name).to_ascii_lowercase(), trim_ows(value).to_vec()));
        pos = le + 2;
    }
    regions.push((head_end - 2, "head-end-crlf"));
    if headers.len() > MAX_HEADERS {
        return HeadOutcome::Reject(start, "too-many-headers", false);
    }

    // RFC 7230 §3.3.3 body length
    let te: Vec<&Vec<u8>> = headers.iter().filter(|h| h.0 == "transfer-encoding").map(|h| &h.1).collect();
    let cl: Vec<&Vec<u8>> = headers.iter().filter(|h| h.0 == "content-length").map(|h| &h.1).collect();
    let framing;
    if !te.is_empty() {
        if !cl.is_empty() {
            return HeadOutcome::Reject(start, "cl-and-te", false);
        }
        if te.len() > 1 {
            return HeadOutcome::Reject(start, "multiple-te", false);
        }
        if !te[0].eq_ignore_ascii_case(b"chunked") {
            return HeadOutcome::Reject(start, "te-not-single-chunked", false);
        }
        if version == 10 {
            return HeadOutcome::Reject(start, "te-on-http10", false);
        }
        framing = Framing::Chunked;
    } else if !cl.is_empty() {
        if cl.len() > 1 {
            return HeadOutcome::Reject(start, "repeated-cl", false);
        }
        let v = cl[0];
        if v.is_empty() || !v.iter().all(|b| b.is_ascii_digit()) {
            return HeadOutcome::Reject(start, "non-numeric-cl", false);
        }
        let n: Option<u64> = std::str::from_utf8(v).ok().and_then(|s| s.parse().ok());
        match n {
            Some(0) => framing = Framing::None,
            Some(n) => framing = Framing::Cl(n),
            None => return HeadOutcome::Reject(start, "cl-overflow", false),
        }
    } else {
        framing = Framing::None;
    }
    if version == 10 && method == "POST" && cl.is_empty() {
        // RFC 1945 §7.2.2: a 1.0 entity body needs a valid Content-Length
        return HeadOutcome::Reject(start, "http10-post-without-cl", false);
    }

    let conn: Vec<u8> = headers.iter().filter(|h| h.0 == "connection").flat_map(|h| h.1.to_ascii_lowercase()).collect();
    let has = |t: &[u8]| find(&conn, 0, t).is_some();
    let wants_close = if version == 11 { has(b"close") } else { !has(b"keep-alive") };
    let expect_continue = headers.iter().any(|h| h.0 == "expect" && h.1.to_ascii_lowercase().starts_with(b"100-"));
    headers.sort();
    HeadOutcome::Ok(RefReq {
        method,
        target,
        version,
        headers,
        body: vec![],
        framing,
        start,
        head_end,
        end: head_end,
        wants_close,
        expect_continue,
    })
}

enum BodyOutcome {
    Done(usize),
    Incomplete,
    Reject(usize, &'static str),
}

fn parse_chunked(d: &[u8], mut pos: usize, body: &mut Vec<u8>, regions: &mut Vec<(usize, &'static str)>) -> BodyOutcome {
    loop {
        // chunk-size line
        regions.push((pos, "chunk-size"));
        let mut size: u64 = 0;
        let mut digits = 0;
        loop {
            if pos >= d.len() {
                return BodyOutcome::Incomplete;
            }
            let b = d[pos];
            let v = match b {
                b'0'..=b'9' => b - b'0',
                b'a'..=b'f' => b - b'a' + 10,
                b'A'..=b'F' => b - b'A' + 10,
                _ => break,
            };
            size = match size.checked_mul(16).and_then(|s| s.checked_add(v as u64)) {
                Some(s) => s,
                None => return BodyOutcome::Reject(pos, "chunk-size-overflow"),
            };
            digits += 1;
            pos += 1;
        }
        if digits == 0 {
            return BodyOutcome::Reject(pos, "chunk-size-missing");
        }
        // optional BWS then extensions — RFC 7230 §4.1.1: *( ";" chunk-ext-name [ "=" chunk-ext-val ] )
        while pos < d.len() && (d[pos] == b' ' || d[pos] == b'\t') {
            pos += 1;
        }
        if pos >= d.len() {
            return BodyOutcome::Incomplete;
        }
        if d[pos] == b';' {
            regions.push((pos, "chunk-ext"));
            while pos < d.len() && d[pos] != b'\r' {
                if d[pos] < 0x20 && d[pos] != b'\t' || d[pos] == 0x7f {
                    return BodyOutcome::Reject(pos, "chunk-ext-control-char");
                }
                pos += 1;
            }
            if pos >= d.len() {
                return BodyOutcome::Incomplete;
            }
        }
        if d[pos] != b'\r' {
            return BodyOutcome::Reject(pos, "chunk-size-bad-char");
        }
        regions.push((pos, "chunk-size-crlf"));
        pos += 1;
        if pos >= d.len() {
            return BodyOutcome::Incomplete;
        }
        if d[pos] != b'\n' {
            return BodyOutcome::Reject(pos, "chunk-size-missing-lf");
        }
        pos += 1;
        if size == 0 {
            // last-chunk; trailer section must be empty in the modelled grammar: CRLF
            regions.push((pos, "last-chunk-crlf"));
            if pos >= d.len() {
                return BodyOutcome::Incomplete;
            }
            if d[pos] != b'\r' {
                return BodyOutcome::Reject(pos, "trailer-or-garbage-after-last-chunk");
            }
            pos += 1;
            if pos >= d.len() {
                return BodyOutcome::Incomplete;
            }
            if d[pos] != b'\n' {
                return BodyOutcome::Reject(pos, "last-chunk-missing-lf");
            }
            return BodyOutcome::Done(pos + 1);
        }
        regions.push((pos, "chunk-data"));
        let avail = (d.len() - pos) as u64;
        if avail < size {
            body.extend_from_slice(&d[pos..]);
            return BodyOutcome::Incomplete;
        }
        body.extend_from_slice(&d[pos..pos + size as usize]);
        pos += size as usize;
        regions.push((pos, "chunk-data-crlf"));
        if pos >= d.len() {
            return BodyOutcome::Incomplete;
        }
        if d[pos] != b'\r' {
            return BodyOutcome::Reject(pos, "chunk-data-missing-cr");
        }
        pos += 1;
        if pos >= d.len() {
            return BodyOutcome::Incomplete;
        }
        if d[pos] != b'\n' {
            return BodyOutcome::Reject(pos, "chunk-data-missing-lf");
        }
        pos += 1;
    }
}

pub fn parse_stream(d: &[u8]) -> RefParse {
    parse_stream_with(d, HeadLimit::Strict)
}

pub fn parse_stream_with(d: &[u8], limit: HeadLimit) -> RefParse {
    let mut out = RefParse { reqs: vec![], partial: None, terminal: Terminal::Clean, regions: vec![] };
    let mut pos = 0;
    while pos < d.len() {
        out.regions.push((pos, "message-start"));
        let mut req = match parse_head(d, pos, &mut out.regions, limit) {
            HeadOutcome::Ok(r) => r,
            HeadOutcome::Incomplete => {
                out.terminal = Terminal::Incomplete { in_body: false };
                return out;
            }
            HeadOutcome::Reject(off, class, too_large) => {
                out.terminal = Terminal::Reject { msg_start: pos, offset: off, in_body: false, class, too_large };
                return out;
            }
            HeadOutcome::Unmodelled(why) => {
                out.terminal = Terminal::Unmodelled(why);
                return out;
            }
        };
        match req.framing.clone() {
            Framing::None => {
                pos = req.head_end;
            }
            Framing::Cl(n) => {
                out.regions.push((req.head_end, "cl-body"));
                let avail = (d.len() - req.head_end) as u64;
                if avail < n {
                    req.body = d[req.head_end..].to_vec();
                    out.partial = Some(req);
                    out.terminal = Terminal::Incomplete { in_body: true };
                    return out;
                }
                req.body = d[req.head_end..req.head_end + n as usize].to_vec();
                pos = req.head_end + n as usize;
            }
            Framing::Chunked => {
                let mut body = vec![];
                match parse_chunked(d, req.head_end, &mut body, &mut out.regions) {
                    BodyOutcome::Done(p) => {
                        req.body = body;
                        pos = p;
                    }
                    BodyOutcome::Incomplete => {
                        req.body = body;
                        out.partial = Some(req);
                        out.terminal = Terminal::Incomplete { in_body: true };
                        return out;
                    }
                    BodyOutcome::Reject(off, class) => {
                        req.body = body;
                        let ms = req.start;
                        out.partial = Some(req);
                        out.terminal = Terminal::Reject { msg_start: ms, offset: off, in_body: true, class, too_large: false };
                        return out;
                    }
                }
            }
        }
        req.end = pos;
        out.reqs.push(req);
    }
    out.terminal = Terminal::Clean;
    out
}

/// Class of the cut made *before* byte `p` (0 < p < len).
pub fn cut_class(parse: &RefParse, d: &[u8], p: usize) -> &'static str {
    if p > 0 && p < d.len() && d[p - 1] == b'\r' && d[p] == b'\n' {
        return "between-cr-and-lf";
    }
    if parse.regions.iter().any(|r| r.0 == p && r.1 == "message-start") {
        return "message-boundary";
    }
    let mut cls = "unclassified";
    for (off, c) in &parse.regions {
        if *off <= p {
            if *c != "message-start" {
                cls = c;
            }
        } else {
            break;
        }
    }
    cls
}
