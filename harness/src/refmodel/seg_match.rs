//! Reference for C10 / C09: the resource-pattern language of `actix-router`, matched by a small
//! backtracking interpreter that does not use the `regex` crate.
//!
//! Pattern language (written from the `ResourceDef` documentation):
//!
//! * static text matches itself;
//! * `{name}` matches a non-empty run of characters other than `/` (`[^/]+`);
//! * `{name:<class>}` matches the language of `<class>`, taken from the fixed menu [`CLASSES`];
//! * `{name}*` at the very end (tail) matches the whole rest of the path, `/` and newlines included;
//! * a *full* pattern must match the whole path, a *prefix* pattern must end at the end of the
//!   path or just before a `/` (segment boundary); a tail pattern ends at the end of the path;
//! * a pattern *list* behaves as its first member (in list order) that matches.
//!
//! Where the language is ambiguous (two adjacent dynamic segments, `{a}-{b}` on `x-y-z`) the
//! documented definition is "the anchored regular expression built from the pieces", i.e.
//! leftmost-first (Perl) semantics: every piece is tried in priority order — greedy repetitions
//! longest first, lazy ones shortest first, alternations left to right — and the first complete
//! match wins.  The interpreter below enumerates matches in exactly that order, so its first
//! result is the expected one and the number of results tells whether the decomposition is unique.
//!
//! Characters, not bytes: repetitions step over whole UTF-8 scalar values; all offsets are byte
//! offsets.  `\d` is modelled as ASCII digits — workloads must not contain non-ASCII digits.

use std::fmt::Write as _;

/// How a custom class matches.
#[derive(Clone, Copy, Debug)]
pub enum Spec {
    /// between `min` and `max` characters satisfying the predicate, longest first (`greedy`) or
    /// shortest first
    Rep { pred: fn(char) -> bool, min: usize, max: usize, greedy: bool },
    /// literal alternatives, tried left to right
    Alt(&'static [&'static str]),
}

#[derive(Clone, Copy, Debug)]
pub struct Class {
    /// the regex source written after the colon in `{name:...}`; "" is the default segment class
    pub src: &'static str,
    pub spec: Spec,
    /// short tag for signatures
    pub tag: &'static str,
}

impl PartialEq for Class {
    fn eq(&self, o: &Class) -> bool {
        self.tag == o.tag && self.src == o.src
    }
}
impl Eq for Class {}

fn not_slash(c: char) -> bool {
    c != '/'
}
fn digit(c: char) -> bool {
    c.is_ascii_digit()
}
fn lower(c: char) -> bool {
    c.is_ascii_lowercase()
}
fn any(_: char) -> bool {
    true
}
fn ab1(c: char) -> bool {
    c == 'a' || c == 'b' || c == '1'
}
fn word_dash(c: char) -> bool {
    c == 'a' || c == 'b' || c == '-'
}

const INF: usize = usize::MAX;
/// per-element memo of the last scanned run (see `walk`)
const RUN_CACHE: usize = 24;
const NO_RUN: (usize, usize) = (usize::MAX, 0);

/// default dynamic segment: `[^/]+`
pub const SEG: Class = Class { src: "", spec: Spec::Rep { pred: not_slash, min: 1, max: INF, greedy: true }, tag: "seg" };
/// tail: `.*` with "dot matches newline"
pub const TAIL: Class = Class { src: "", spec: Spec::Rep { pred: any, min: 0, max: INF, greedy: true }, tag: "tail" };

/// The fixed menu of custom classes.  `src` is what goes into the pattern string.
pub const CLASSES: &[Class] = &[
    Class { src: r"\d+", spec: Spec::Rep { pred: digit, min: 1, max: INF, greedy: true }, tag: "d+" },
    Class { src: r"[a-z]+", spec: Spec::Rep { pred: lower, min: 1, max: INF, greedy: true }, tag: "az+" },
    Class { src: r"[^/]*", spec: Spec::Rep { pred: not_slash, min: 0, max: INF, greedy: true }, tag: "ns*" },
    Class { src: r".*", spec: Spec::Rep { pred: any, min: 0, max: INF, greedy: true }, tag: ".*" },
    Class { src: r".+", spec: Spec::Rep { pred: any, min: 1, max: INF, greedy: true }, tag: ".+" },
    Class { src: r"[ab1]{2}", spec: Spec::Rep { pred: ab1, min: 2, max: 2, greedy: true }, tag: "ab1{2}" },
    Class { src: r"[^/]+?", spec: Spec::Rep { pred: not_slash, min: 1, max: INF, greedy: false }, tag: "ns+?" },
    Class { src: r"a|ab", spec: Spec::Alt(&["a", "ab"]), tag: "a|ab" },
    Class { src: r"[ab-]{1,3}", spec: Spec::Rep { pred: word_dash, min: 1, max: 3, greedy: true }, tag: "ab-{1,3}" },
    Class { src: r"\d*", spec: Spec::Rep { pred: digit, min: 0, max: INF, greedy: true }, tag: "d*" },
    Class { src: r"ab|a|", spec: Spec::Alt(&["ab", "a", ""]), tag: "ab|a|" },
];

#[derive(Clone, Debug, PartialEq, Eq)]
pub enum Elem {
    Lit(String),
    Var { name: String, class: Class },
    /// `{name}*`, only as the last element
    Tail { name: String },
}

#[derive(Clone, Debug, PartialEq, Eq)]
pub struct Pattern {
    pub elems: Vec<Elem>,
}

/// one capture: (name, start, end) as byte offsets into the matched string
pub type Cap = (String, usize, usize);

#[derive(Clone, Debug, PartialEq, Eq)]
pub struct Match {
    /// byte length of the matched part (for a prefix: up to, not including, the boundary `/`)
    pub len: usize,
    pub caps: Vec<Cap>,
}

impl Pattern {
    pub fn lit(s: &str) -> Pattern {
        Pattern { elems: if s.is_empty() { vec![] } else { vec![Elem::Lit(s.to_string())] } }
    }

    /// The pattern string handed to `ResourceDef`.
    pub fn source(&self) -> String {
        let mut s = String::new();
        for e in &self.elems {
            match e {
                Elem::Lit(l) => s.push_str(l),
                Elem::Var { name, class } => {
                    if class.src.is_empty() {
                        let _ = write!(s, "{{{name}}}");
                    } else {
                        let _ = write!(s, "{{{name}:{}}}", class.src);
                    }
                }
                Elem::Tail { name } => {
                    let _ = write!(s, "{{{name}}}*");
                }
            }
        }
        s
    }

    /// Parse a pattern string of the restricted grammar back into elements (used by replays and by
    /// the routing model, where tables are written with pattern strings).  `None` when the string
    /// uses something outside the grammar.
    pub fn parse(src: &str) -> Option<Pattern> {
        let mut elems = vec![];
        let mut rest = src;
        while let Some(i) = rest.find('{') {
            if i > 0 {
                elems.push(Elem::Lit(rest[..i].to_string()));
            }
            // find the matching close brace (classes may contain `{2}`)
            let mut depth = 0usize;
            let mut close = None;
            for (j, c) in rest[i..].char_indices() {
                match c {
                    '{' => depth += 1,
                    '}' => {
                        depth -= 1;
                        if depth == 0 {
                            close = Some(i + j);
                            break;
                        }
                    }
                    _ => {}
                }
            }
            let close = close?;
            let inner = &rest[i + 1..close];
            let after = &rest[close + 1..];
            match inner.split_once(':') {
                Some((name, cls)) => {
                    let class = *CLASSES.iter().find(|c| c.src == cls)?;
                    elems.push(Elem::Var { name: name.to_string(), class });
                    rest = after;
                }
                None => {
                    if after == "*" {
                        elems.push(Elem::Tail { name: inner.to_string() });
                        rest = "";
                    } else {
                        elems.push(Elem::Var { name: inner.to_string(), class: SEG });
                        rest = after;
                    }
                }
            }
        }
        if !rest.is_empty() {
            if rest.ends_with('*') {
                return None; // unnamed tail: outside the grammar
            }
            elems.push(Elem::Lit(rest.to_string()));
        }
        Some(Pattern { elems })
    }

    pub fn has_tail(&self) -> bool {
        matches!(self.elems.last(), Some(Elem::Tail { .. }))
    }
    pub fn is_static(&self) -> bool {
        self.elems.iter().all(|e| matches!(e, Elem::Lit(_)))
    }
    pub fn names(&self) -> Vec<&str> {
        self.elems
            .iter()
            .filter_map(|e| match e {
                Elem::Var { name, .. } | Elem::Tail { name } => Some(name.as_str()),
                Elem::Lit(_) => None,
            })
            .collect()
    }
    /// abstract shape for signatures: element kinds without names and literal text
    pub fn shape(&self) -> String {
        let mut s = String::new();
        for e in &self.elems {
            match e {
                Elem::Lit(l) => {
                    // keep only the slash structure of a literal
                    let mut prev_other = false;
                    for c in l.chars() {
                        if c == '/' {
                            s.push('/');
                            prev_other = false;
                        } else if !prev_other {
                            s.push('L');
                            prev_other = true;
                        }
                    }
                }
                Elem::Var { class, .. } => {
                    let _ = write!(s, "<{}>", class.tag);
                }
                Elem::Tail { .. } => s.push_str("<tail>"),
            }
        }
        s
    }

    /// First match in priority order, or `None`.
    pub fn find(&self, path: &str, prefix: bool) -> Option<Match> {
        let mut out = None;
        let mut caps = Vec::with_capacity(4);
        let mut cache = [NO_RUN; RUN_CACHE];
        self.walk(path, prefix, 0, 0, &mut caps, &mut cache, &mut |len, caps| {
            out = Some(Match { len, caps: self.named(caps) });
            true
        });
        out
    }

    /// Number of distinct complete decompositions, counted up to `cap`.
    pub fn count(&self, path: &str, prefix: bool, cap: usize) -> usize {
        let mut n = 0;
        let mut caps = Vec::with_capacity(4);
        let mut cache = [NO_RUN; RUN_CACHE];
        let mut seen: Vec<(usize, Vec<(usize, usize)>)> = vec![];
        self.walk(path, prefix, 0, 0, &mut caps, &mut cache, &mut |len, caps| {
            let key = (len, caps.to_vec());
            if !seen.contains(&key) {
                seen.push(key);
                n += 1;
            }
            n >= cap
        });
        n
    }

    fn named(&self, spans: &[(usize, usize)]) -> Vec<Cap> {
        self.names().into_iter().zip(spans.iter()).map(|(n, &(a, b))| (n.to_string(), a, b)).collect()
    }

    /// Depth-first enumeration of complete matches in priority order.  `done` returns true to stop.
    /// Returns true when stopped.
    fn walk(
        &self,
        path: &str,
        prefix: bool,
        ei: usize,
        pos: usize,
        caps: &mut Vec<(usize, usize)>,
        cache: &mut [(usize, usize); RUN_CACHE],
        done: &mut dyn FnMut(usize, &[(usize, usize)]) -> bool,
    ) -> bool {
        if ei == self.elems.len() {
            let ok = if self.has_tail() {
                // the tail has consumed everything
                true
            } else if prefix {
                pos == path.len() || path.as_bytes()[pos] == b'/'
            } else {
                pos == path.len()
            };
            return ok && done(pos, caps);
        }
        match &self.elems[ei] {
            Elem::Lit(l) => {
                if path[pos..].starts_with(l.as_str()) {
                    return self.walk(path, prefix, ei + 1, pos + l.len(), caps, cache, done);
                }
                false
            }
            Elem::Tail { .. } => {
                caps.push((pos, path.len()));
                let r = self.walk(path, prefix, ei + 1, path.len(), caps, cache, done);
                caps.pop();
                r
            }
            Elem::Var { class, .. } => match class.spec {
                Spec::Alt(alts) => {
                    for a in alts {
                        if path[pos..].starts_with(a) {
                            caps.push((pos, pos + a.len()));
                            let r = self.walk(path, prefix, ei + 1, pos + a.len(), caps, cache, done);
                            caps.pop();
                            if r {
                                return true;
                            }
                        }
                    }
                    false
                }
                Spec::Rep { pred, min, max, greedy } => {
                    // `end`: end of the longest admissible run starting at `pos` (characters
                    // satisfying the predicate, at most `max` of them).  For unbounded classes the
                    // run [lo, hi) found by an earlier scan is remembered: any start inside it
                    // ends at the same place.
                    let end = if max == INF && ei < RUN_CACHE && cache[ei].0 <= pos && pos <= cache[ei].1 {
                        cache[ei].1
                    } else {
                        let joinable = max == INF && ei < RUN_CACHE && cache[ei].0 != usize::MAX;
                        let mut end = pos;
                        let mut n = 0usize;
                        for c in path[pos..].chars() {
                            if joinable && end == cache[ei].0 {
                                // ran into the remembered run: it continues to that run's end
                                end = cache[ei].1;
                                break;
                            }
                            if n >= max || !pred(c) {
                                break;
                            }
                            end += c.len_utf8();
                            n += 1;
                        }
                        if max == INF && ei < RUN_CACHE {
                            cache[ei] = (pos, end);
                        }
                        end
                    };
                    // shortest admissible end: `min` characters
                    let mut min_end = pos;
                    for c in path[pos..end].chars().take(min) {
                        min_end += c.len_utf8();
                    }
                    if path[pos..min_end].chars().count() < min {
                        return false;
                    }
                    // Candidate ends are all character boundaries in [min_end, end], in priority
                    // order.  Pruning that cannot lose a match: when what must follow starts with
                    // a character the class does not contain, only the full run can be followed
                    // by it (every shorter end is followed by a character of the class).
                    let only_end = match self.elems.get(ei + 1) {
                        Some(Elem::Lit(l)) => l.chars().next().map(|c| !pred(c)).unwrap_or(false),
                        Some(_) => false,
                        None => !prefix || !pred('/'),
                    };
                    if only_end {
                        if end < min_end {
                            return false;
                        }
                        caps.push((pos, end));
                        let r = self.walk(path, prefix, ei + 1, end, caps, cache, done);
                        caps.pop();
                        return r;
                    }
                    if greedy {
                        let mut e = end;
                        loop {
                            caps.push((pos, e));
                            let r = self.walk(path, prefix, ei + 1, e, caps, cache, done);
                            caps.pop();
                            if r {
                                return true;
                            }
                            if e == min_end {
                                return false;
                            }
                            e -= 1;
                            while !path.is_char_boundary(e) {
                                e -= 1;
                            }
                        }
                    } else {
                        let mut e = min_end;
                        loop {
                            caps.push((pos, e));
                            let r = self.walk(path, prefix, ei + 1, e, caps, cache, done);
                            caps.pop();
                            if r {
                                return true;
                            }
                            if e == end {
                                return false;
                            }
                            e += 1;
                            while !path.is_char_boundary(e) {
                                e += 1;
                            }
                        }
                    }
                }
            },
        }
    }
}

/// A resource definition as the model sees it: one or more patterns, full or prefix.
#[derive(Clone, Debug, PartialEq, Eq)]
pub struct Def {
    pub pats: Vec<Pattern>,
    pub prefix: bool,
}

impl Def {
    pub fn one(p: Pattern, prefix: bool) -> Def {
        Def { pats: vec![p], prefix }
    }
    pub fn sources(&self) -> Vec<String> {
        self.pats.iter().map(|p| p.source()).collect()
    }
    pub fn parse(srcs: &[String], prefix: bool) -> Option<Def> {
        let pats: Option<Vec<Pattern>> = srcs.iter().map(|s| Pattern::parse(s)).collect();
        Some(Def { pats: pats?, prefix })
    }
    /// (index of the first member that matches, its match)
    pub fn find(&self, path: &str) -> Option<(usize, Match)> {
        for (i, p) in self.pats.iter().enumerate() {
            if let Some(m) = p.find(path, self.prefix) {
                return Some((i, m));
            }
        }
        None
    }
    pub fn shape(&self) -> String {
        let mut s = String::from(if self.prefix { "P:" } else { "F:" });
        for (i, p) in self.pats.iter().enumerate() {
            if i > 0 {
                s.push('|');
            }
            s.push_str(&p.shape());
        }
        s
    }
}

#[cfg(test)]
mod tests {
    use super::*;

    #[test]
    fn basics() {
        let p = Pattern::parse("/user/{id}/x").unwrap();
        assert_eq!(p.find("/user/12/x", false).unwrap().caps, vec![("id".to_string(), 6, 8)]);
        assert!(p.find("/user//x", false).is_none());
        let p = Pattern::parse("/{a}-{b}").unwrap();
        let m = p.find("/x-y-z", false).unwrap();
        assert_eq!((m.caps[0].1, m.caps[0].2, m.caps[1].1, m.caps[1].2), (1, 4, 5, 6));
        assert_eq!(p.count("/x-y-z", false, 5), 2);
        let p = Pattern::parse("/app").unwrap();
        assert_eq!(p.find("/app/x", true).unwrap().len, 4);
        assert!(p.find("/apple", true).is_none());
        assert_eq!(Pattern::parse("").unwrap().find("/x", true).unwrap().len, 0);
        let p = Pattern::parse("/b/{t}*").unwrap();
        assert_eq!(p.find("/b/x/y", false).unwrap().caps[0], ("t".to_string(), 3, 6));
    }
}
