//! reference model `seg_match` — not built yet.
