//! reference model `route_tree` — not built yet.
