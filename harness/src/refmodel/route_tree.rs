//! Reference for C09: an interpreter for an actix-web routing table.
//!
//! Written from the documentation of `App`, `Scope`, `Resource`, `Route` and the guards (see
//! DESIGN.md Appendix A.1), on top of `seg_match` (pattern language) and `pct_decode` (the routing
//! view of a request path).  Rules:
//!
//! * services of a level are tried in registration order;
//! * a scope with prefix `p` is the *prefix* definition of `p` (a leading `/` is inserted when `p`
//!   is non-empty and lacks one): it matches when the unmatched path starts with it and what
//!   follows is empty or starts with `/`.  When prefix and scope guards accept, the scope
//!   **commits**: its parameters are recorded, the prefix is consumed, its data container is
//!   pushed, and the request is answered inside — by the first matching child or by the scope's
//!   default.  Later siblings are never tried;
//! * a resource is the *full* definition of its pattern(s) (leading `/` inserted into non-empty
//!   patterns lacking one) against the whole unmatched rest.  When pattern and resource guards
//!   accept it commits likewise; the first route whose guards accept answers, else the resource's
//!   default (405 unless replaced);
//! * `App::route(p, r)` / `Scope::route(p, r)` is a one-route resource whose route guards act as
//!   resource guards;
//! * nothing matched at a level: the level's default answers.  The app's is 404 unless replaced.
//!   A scope without its own default uses the **app's** (documented on `Scope::default_service`);
//!   the property text says "nearest enclosing default", so for a default-less scope inside a
//!   scope with a custom default both are returned as acceptable;
//! * parameters seen by whoever answers: those of every committed pattern, outer to inner, as
//!   substrings of the routing view of the path; data: innermost registration per type.

use serde::{Deserialize, Serialize};

use super::{
    pct_decode,
    seg_match::{Def, Pattern},
};

#[derive(Clone, Debug, PartialEq, Eq, Serialize, Deserialize)]
pub enum Guard {
    Method(String),
    /// header name (lower case) must be present with exactly this value
    Header(String, String),
    Host(String),
}

#[derive(Clone, Debug, PartialEq, Eq, Serialize, Deserialize)]
pub struct Route {
    pub id: u32,
    pub guards: Vec<Guard>,
}

#[derive(Clone, Debug, PartialEq, Eq, Serialize, Deserialize)]
pub enum Node {
    Resource {
        id: u32,
        patterns: Vec<String>,
        guards: Vec<Guard>,
        routes: Vec<Route>,
        /// id of a custom default service, if any
        default: Option<u32>,
        /// values registered as app_data, one slot per marker type
        data: [Option<u32>; 2],
    },
    /// `.route(path, route)` sugar on App / Scope
    Sugar { path: String, route: Route },
    Scope {
        id: u32,
        prefix: String,
        guards: Vec<Guard>,
        children: Vec<Node>,
        default: Option<u32>,
        data: [Option<u32>; 2],
    },
}

#[derive(Clone, Debug, PartialEq, Eq, Serialize, Deserialize)]
pub struct Table {
    pub children: Vec<Node>,
    pub default: Option<u32>,
    pub data: [Option<u32>; 2],
}

#[derive(Clone, Debug, PartialEq, Eq, Serialize, Deserialize)]
pub struct Req {
    pub method: String,
    /// raw request path (still percent-encoded), starts with `/`
    pub path: String,
    /// optional query string without the `?`
    pub query: Option<String>,
    /// extra header (lower-case name, value)
    pub header: Option<(String, String)>,
    pub host: Option<String>,
}

#[derive(Clone, Debug, PartialEq, Eq)]
pub enum Who {
    /// the route handler with this id
    Route(u32),
    /// the custom default service with this id
    Default(u32),
    /// built-in 404
    NotFound,
    /// built-in 405 of a resource
    MethodNotAllowed,
}

#[derive(Clone, Debug, PartialEq, Eq)]
pub struct Expected {
    /// acceptable answerers (more than one only where documentation and property text differ)
    pub who: Vec<Who>,
    pub params: Vec<(String, String)>,
    pub data: [Option<u32>; 2],
    /// abstract decision path for signatures: kinds of the nodes committed to and how it ended
    pub trace: String,
    /// some guard of a node whose pattern matched rejected the request
    pub guard_rejected: bool,
    /// the default-less-nested-scope latitude applies
    pub latitude: bool,
}

pub fn guards_ok(gs: &[Guard], req: &Req) -> bool {
    gs.iter().all(|g| match g {
        Guard::Method(m) => *m == req.method,
        Guard::Header(n, v) => req.header.as_ref().map(|(hn, hv)| hn == n && hv == v).unwrap_or(false),
        Guard::Host(h) => req.host.as_deref() == Some(h.as_str()),
    })
}

fn with_slash(p: &str) -> String {
    if !p.is_empty() && !p.starts_with('/') {
        format!("/{p}")
    } else {
        p.to_string()
    }
}

pub fn scope_def(prefix: &str) -> Option<Def> {
    Def::parse(&[with_slash(prefix)], true)
}

pub fn resource_def(patterns: &[String]) -> Option<Def> {
    let v: Vec<String> = patterns.iter().map(|p| with_slash(p)).collect();
    Def::parse(&v, false)
}

struct St<'a> {
    view: &'a str,
    req: &'a Req,
    params: Vec<(String, String)>,
    data: [Option<u32>; 2],
    trace: String,
    guard_rejected: bool,
    /// custom defaults of the enclosing scopes, innermost last
    scope_defaults: Vec<Option<u32>>,
}

impl St<'_> {
    fn push_data(&mut self, d: &[Option<u32>; 2]) {
        for i in 0..2 {
            if d[i].is_some() {
                self.data[i] = d[i];
            }
        }
    }
    fn take(&mut self, pos: usize, caps: &[(String, usize, usize)]) {
        let rest = &self.view[pos..];
        for (n, a, b) in caps {
            self.params.push((n.clone(), rest[*a..*b].to_string()));
        }
    }
}

/// Interpret `table` for `req`.  `None` when a pattern of the table is outside the modelled
/// grammar (the caller must not generate such tables).
pub fn route(table: &Table, req: &Req) -> Option<Expected> {
    let view = pct_decode::path_view(&req.path);
    let mut st = St { view: &view, req, params: vec![], data: [None, None], trace: String::new(), guard_rejected: false, scope_defaults: vec![] };
    st.push_data(&table.data);
    let (who, latitude) = match level(&table.children, 0, &mut st)? {
        Some(w) => w,
        None => {
            st.trace.push_str("!app-default");
            (vec![table.default.map(Who::Default).unwrap_or(Who::NotFound)], false)
        }
    };
    // scope-level fall-through asks for the app default through this marker
    let who = who
        .into_iter()
        .map(|w| match w {
            Who::Default(u32::MAX) => table.default.map(Who::Default).unwrap_or(Who::NotFound),
            w => w,
        })
        .collect::<Vec<_>>();
    let mut uniq: Vec<Who> = vec![];
    for w in who {
        if !uniq.contains(&w) {
            uniq.push(w);
        }
    }
    let latitude = latitude && uniq.len() > 1;
    Some(Expected { who: uniq, params: st.params, data: st.data, trace: st.trace, guard_rejected: st.guard_rejected, latitude })
}

/// Try the services of one level in order.  `Some(None)`: nothing at this level took the request.
fn level(children: &[Node], pos: usize, st: &mut St<'_>) -> Option<Option<(Vec<Who>, bool)>> {
    for child in children {
        match child {
            Node::Resource { patterns, guards, routes, default, data, .. } => {
                let def = resource_def(patterns)?;
                if let Some((_, m)) = def.find(&st.view[pos..]) {
                    if !guards_ok(guards, st.req) {
                        st.guard_rejected = true;
                        continue;
                    }
                    st.take(pos, &m.caps);
                    st.push_data(data);
                    st.trace.push('R');
                    for r in routes {
                        if guards_ok(&r.guards, st.req) {
                            st.trace.push_str("!route");
                            return Some(Some((vec![Who::Route(r.id)], false)));
                        }
                        st.guard_rejected = true;
                    }
                    st.trace.push_str("!resource-default");
                    return Some(Some((vec![default.map(Who::Default).unwrap_or(Who::MethodNotAllowed)], false)));
                }
            }
            Node::Sugar { path, route } => {
                let def = resource_def(std::slice::from_ref(path))?;
                if let Some((_, m)) = def.find(&st.view[pos..]) {
                    if !guards_ok(&route.guards, st.req) {
                        st.guard_rejected = true;
                        continue;
                    }
                    st.take(pos, &m.caps);
                    st.trace.push_str("S!route");
                    return Some(Some((vec![Who::Route(route.id)], false)));
                }
            }
            Node::Scope { prefix, guards, children, default, data, .. } => {
                let def = scope_def(prefix)?;
                if let Some((_, m)) = def.find(&st.view[pos..]) {
                    if !guards_ok(guards, st.req) {
                        st.guard_rejected = true;
                        continue;
                    }
                    st.take(pos, &m.caps);
                    st.push_data(data);
                    st.trace.push_str("C(");
                    st.scope_defaults.push(*default);
                    let inner = level(children, pos + m.len, st)?;
                    let own = st.scope_defaults.pop().unwrap();
                    if let Some(w) = inner {
                        return Some(Some(w));
                    }
                    st.trace.push_str("!scope-default");
                    return Some(Some(match own {
                        Some(d) => (vec![Who::Default(d)], false),
                        None => {
                            // documented: the app default.  Property text: nearest enclosing.
                            let mut who = vec![Who::Default(u32::MAX)];
                            if let Some(Some(d)) = st.scope_defaults.iter().rev().find(|d| d.is_some()) {
                                who.push(Who::Default(*d));
                            }
                            (who, true)
                        }
                    }));
                }
            }
        }
    }
    Some(None)
}

/// Is every pattern of the table inside the modelled grammar and free of constructions the
/// documentation calls undefined (tail in a scope prefix)?
pub fn well_formed(table: &Table) -> bool {
    fn nodes(ns: &[Node]) -> bool {
        ns.iter().all(|n| match n {
            Node::Resource { patterns, .. } => !patterns.is_empty() && resource_def(patterns).is_some(),
            Node::Sugar { path, .. } => Pattern::parse(&with_slash(path)).is_some(),
            Node::Scope { prefix, children, .. } => match Pattern::parse(&with_slash(prefix)) {
                Some(p) => !p.has_tail() && nodes(children),
                None => false,
            },
        })
    }
    nodes(&table.children)
}
