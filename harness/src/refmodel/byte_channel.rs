//! reference model `byte_channel` — not built yet.
