//! Reference model `byte_channel` — what a one-way body channel owes its reader (C07).
//!
//! Written from the property text, not from `actix-http/src/h1/payload.rs`: a FIFO of uniquely
//! numbered bytes plus what the feeding side has signalled about the end.  The model never says
//! what the channel *will* return; it judges what the real channel *did* return:
//!
//! * data: must be the exact next bytes of the FIFO, in order (chunk boundaries are not part of
//!   the contract; empty chunks carry no bytes and are ignored);
//! * `Pending`: only if nothing is owed — no byte buffered, no ending signalled and undelivered;
//! * error `e`: only after every buffered byte was delivered, and `e` must be an error the feeder
//!   set (and that was not delivered yet), or `Incomplete` if the feeder vanished without
//!   signalling any ending;
//! * clean end: only after every buffered byte was delivered, only if the end of the body was
//!   signalled, and not while a signalled error is still undelivered (that would be a clean end
//!   *alone* for a body that was cut short).  Error first, then clean end, is a truthful ending.
//!
//! After the first ending (error or clean end) was delivered the model only keeps insisting on
//! the exact bytes (data chunks, `Pending`/clean end while bytes are buffered) and on "no clean end
//! that was never signalled"; everything else — further errors in particular — is tolerated.
//!
//! Back-pressure: `LIMIT` is the buffering limit.  The model knows how many bytes are buffered
//! and whether that figure was inflated by the reader pushing data back (`tainted`): the real
//! channel does not re-evaluate its "need more" flag on push-back, which is accepted.

use std::collections::VecDeque;

/// the buffering limit of the channel under test (32 KiB, documented on `MAX_BUFFER_SIZE`)
pub const LIMIT: usize = 32 * 1024;

#[derive(Clone, Copy, Debug, PartialEq, Eq, Hash)]
pub enum ErrKind {
    Incomplete,
    EncodingCorrupted,
    Overflow,
    UnknownLength,
    Io,
    /// anything the harness never sets (HTTP/2 errors…)
    Other,
}

impl ErrKind {
    pub fn name(&self) -> &'static str {
        match self {
            ErrKind::Incomplete => "incomplete",
            ErrKind::EncodingCorrupted => "encoding",
            ErrKind::Overflow => "overflow",
            ErrKind::UnknownLength => "unknown-length",
            ErrKind::Io => "io",
            ErrKind::Other => "other",
        }
    }
}

/// A run of consecutively numbered bytes.  `src` 0: numbered by the connection (fed), 1: fresh
/// bytes invented by the reader for a push-back.  `off` is where the harness finds the byte values
/// (opaque to the model).  `back` is set by the model on everything the reader pushed back,
/// whether fresh or previously read.
#[derive(Clone, Copy, Debug, PartialEq, Eq)]
pub struct Seg {
    pub src: u8,
    pub id: u64,
    pub off: usize,
    pub len: usize,
    pub back: bool,
}

#[derive(Clone, Copy, Debug, PartialEq, Eq)]
pub enum End {
    Clean,
    Error(ErrKind),
}

/// Which clause of the property an observation broke.
#[derive(Clone, Debug, PartialEq, Eq)]
pub enum Fault {
    /// more bytes delivered than were ever put in
    PhantomBytes { got: usize, buffered: usize },
    /// reader told to wait although bytes / an ending are owed to it
    PendingWhileOwed { buffered: usize, eof: bool, errs: usize },
    /// an ending (error or clean end) delivered while fed bytes are still undelivered
    LostBytes { undelivered: usize, ending: End },
    /// an error nobody set, and the feeder did not vanish
    PhantomError(ErrKind),
    /// an error of a different kind than any that was set / implied
    WrongError { got: ErrKind, owed: Vec<ErrKind> },
    /// clean end although the end of the body was never signalled
    FalseCleanEnd { sender_gone: bool },
    /// clean end delivered while a signalled error is still undelivered
    CleanEndHidesError(Vec<ErrKind>),
}

impl Fault {
    pub fn class(&self) -> &'static str {
        match self {
            Fault::PhantomBytes { .. } => "bytes/phantom",
            Fault::PendingWhileOwed { .. } => "stall/pending-while-owed",
            Fault::LostBytes { .. } => "bytes/lost-before-ending",
            Fault::PhantomError(_) => "ending/phantom-error",
            Fault::WrongError { .. } => "ending/wrong-error",
            Fault::FalseCleanEnd { .. } => "ending/false-clean-end",
            Fault::CleanEndHidesError(_) => "ending/clean-end-hides-error",
        }
    }
}

#[derive(Clone, Debug)]
pub struct Channel {
    segs: VecDeque<Seg>,
    buffered: usize,
    pub eof_signalled: bool,
    /// errors signalled (set by the feeder, or implied by its disappearance) and not yet delivered
    pub errs: Vec<ErrKind>,
    pub err_ever_set: bool,
    pub sender_alive: bool,
    pub reader_alive: bool,
    /// first ending the reader was given
    pub delivered_end: Option<End>,
    /// the reader pushed bytes back since the buffer was last seen below the limit
    pub tainted: bool,
    pub total_in: u64,
    pub total_out: u64,
}

impl Channel {
    /// `eof`: the channel is created already at end-of-body (nothing will ever be fed).
    pub fn new(eof: bool) -> Self {
        Channel {
            segs: VecDeque::new(),
            buffered: 0,
            eof_signalled: eof,
            errs: vec![],
            err_ever_set: false,
            sender_alive: true,
            reader_alive: true,
            delivered_end: None,
            tainted: false,
            total_in: 0,
            total_out: 0,
        }
    }

    pub fn buffered(&self) -> usize {
        self.buffered
    }
    pub fn chunks(&self) -> usize {
        self.segs.len()
    }
    pub fn buffered_unread(&self) -> usize {
        self.segs.iter().filter(|s| s.back).map(|s| s.len).sum()
    }
    /// an ending has been signalled and not (fully) delivered yet
    pub fn ending_owed(&self) -> bool {
        self.delivered_end.is_none() && (self.eof_signalled || !self.errs.is_empty())
    }
    /// the reader is owed something right now (so `Pending` would be a stall)
    pub fn owed(&self) -> bool {
        self.buffered > 0 || self.ending_owed()
    }

    fn untaint(&mut self) {
        if self.buffered < LIMIT {
            self.tainted = false;
        }
    }

    // ---- feeding side -------------------------------------------------------------------------

    /// No effect once the reader is gone (nobody can observe the bytes).
    pub fn feed(&mut self, seg: Seg) {
        if !self.reader_alive || seg.len == 0 {
            return;
        }
        self.total_in += seg.len as u64;
        self.buffered += seg.len;
        self.segs.push_back(seg);
    }
    pub fn feed_eof(&mut self) {
        self.eof_signalled = true;
    }
    pub fn set_error(&mut self, k: ErrKind) {
        self.err_ever_set = true;
        self.errs.push(k);
    }
    /// Returns true if the disappearance itself is an event the reader must learn about (the body
    /// was cut short: neither an end nor an error had been signalled).
    pub fn drop_sender(&mut self) -> bool {
        let was = self.sender_alive;
        self.sender_alive = false;
        if was && !self.eof_signalled && !self.err_ever_set {
            self.errs.push(ErrKind::Incomplete);
            true
        } else {
            false
        }
    }

    // ---- reading side -------------------------------------------------------------------------

    pub fn unread(&mut self, mut seg: Seg) {
        if seg.len == 0 {
            return;
        }
        seg.back = true;
        self.total_in += seg.len as u64;
        self.buffered += seg.len;
        self.segs.push_front(seg);
        self.tainted = true;
    }
    pub fn drop_reader(&mut self) {
        self.reader_alive = false;
        self.segs.clear();
        self.buffered = 0;
        self.tainted = false;
    }

    /// The reader was given a data chunk of `n` bytes: which bytes must they be?  Also tells
    /// whether the chunk is exactly the oldest queued chunk (boundary preserved; evidence only).
    pub fn on_data(&mut self, n: usize) -> Result<(Vec<Seg>, bool), Fault> {
        if n > self.buffered {
            return Err(Fault::PhantomBytes { got: n, buffered: self.buffered });
        }
        let whole = self.segs.front().map(|s| s.len == n).unwrap_or(false);
        let mut out = Vec::with_capacity(1);
        let mut need = n;
        while need > 0 {
            let front = self.segs.front_mut().expect("buffered accounting");
            if front.len <= need {
                need -= front.len;
                out.push(*front);
                self.segs.pop_front();
            } else {
                out.push(Seg { len: need, ..*front });
                front.id += need as u64;
                front.off += need;
                front.len -= need;
                need = 0;
            }
        }
        self.buffered -= n;
        self.total_out += n as u64;
        self.untaint();
        Ok((out, whole))
    }

    pub fn on_pending(&mut self) -> Result<(), Fault> {
        // owed(): buffered bytes always; a signalled ending only until the first ending was delivered
        if self.owed() {
            return Err(Fault::PendingWhileOwed { buffered: self.buffered, eof: self.eof_signalled, errs: self.errs.len() });
        }
        self.untaint();
        Ok(())
    }

    pub fn on_error(&mut self, k: ErrKind) -> Result<(), Fault> {
        if self.delivered_end.is_some() {
            // the reader already has its ending; consumers stop there, so a further error is
            // outside the contract (tolerated, whatever it is)
            self.errs.clear();
            self.untaint();
            return Ok(());
        }
        if self.buffered > 0 {
            return Err(Fault::LostBytes { undelivered: self.buffered, ending: End::Error(k) });
        }
        if self.errs.is_empty() {
            return Err(Fault::PhantomError(k));
        }
        if !self.errs.contains(&k) {
            return Err(Fault::WrongError { got: k, owed: self.errs.clone() });
        }
        // one delivery settles every error signalled so far (a later set_error replaces an earlier one)
        self.errs.clear();
        self.delivered_end = Some(End::Error(k));
        self.untaint();
        Ok(())
    }

    pub fn on_end(&mut self) -> Result<(), Fault> {
        if self.buffered > 0 {
            return Err(Fault::LostBytes { undelivered: self.buffered, ending: End::Clean });
        }
        if !self.eof_signalled {
            return Err(Fault::FalseCleanEnd { sender_gone: !self.sender_alive });
        }
        if self.delivered_end.is_none() && !self.errs.is_empty() {
            return Err(Fault::CleanEndHidesError(self.errs.clone()));
        }
        if self.delivered_end.is_none() {
            self.delivered_end = Some(End::Clean);
        }
        self.untaint();
        Ok(())
    }
}
