//! Reference for C18: an order-preserving multimap keyed by case-insensitive name.
//! (name → values in insertion order; names themselves unordered.)

use std::collections::BTreeMap;

#[derive(Clone, Debug, Default, PartialEq, Eq)]
pub struct MultiMap {
    pub m: BTreeMap<String, Vec<Vec<u8>>>,
}

impl MultiMap {
    pub fn key(name: &str) -> String {
        name.to_ascii_lowercase()
    }
    pub fn insert(&mut self, name: &str, v: &[u8]) -> Vec<Vec<u8>> {
        self.m.insert(Self::key(name), vec![v.to_vec()]).unwrap_or_default()
    }
    pub fn append(&mut self, name: &str, v: &[u8]) {
        self.m.entry(Self::key(name)).or_default().push(v.to_vec());
    }
    pub fn remove(&mut self, name: &str) -> Vec<Vec<u8>> {
        self.m.remove(&Self::key(name)).unwrap_or_default()
    }
    pub fn retain(&mut self, mut f: impl FnMut(&str, &mut Vec<u8>) -> bool) {
        let keys: Vec<String> = self.m.keys().cloned().collect();
        for k in keys {
            let vals = self.m.get_mut(&k).unwrap();
            let mut kept = vec![];
            for mut v in std::mem::take(vals) {
                if f(&k, &mut v) {
                    kept.push(v);
                }
            }
            if kept.is_empty() {
                self.m.remove(&k);
            } else {
                *vals = kept;
            }
        }
    }
    pub fn clear(&mut self) {
        self.m.clear();
    }
    pub fn len(&self) -> usize {
        self.m.values().map(|v| v.len()).sum()
    }
    pub fn len_keys(&self) -> usize {
        self.m.len()
    }
    pub fn get(&self, name: &str) -> Option<&Vec<u8>> {
        self.m.get(&Self::key(name)).and_then(|v| v.first())
    }
    pub fn get_all(&self, name: &str) -> Vec<Vec<u8>> {
        self.m.get(&Self::key(name)).cloned().unwrap_or_default()
    }
    /// abstract shape: per-name value count (capped) — used for coverage signatures
    pub fn shape(&self, universe: &[&str]) -> String {
        universe
            .iter()
            .map(|n| (self.m.get(&Self::key(n)).map(|v| v.len()).unwrap_or(0).min(5) as u8 + b'0') as char)
            .collect()
    }
}
