//! Reference HTTP/1 response-stream parser (the "conforming client").  Strict: anything that is
//! not `HTTP/1.x SP 3DIGIT SP reason CRLF *(name ":" OWS value OWS CRLF) CRLF body` stops the parse
//! at that offset.  Body length per RFC 7230 §3.3.3 for responses.

#[derive(Clone, Debug, PartialEq, Eq)]
pub enum RespFraming {
    /// HEAD response, 1xx, 204, 304: no body regardless of headers
    NoBody,
    Cl(u64),
    Chunked,
    CloseDelimited,
}

#[derive(Clone, Debug)]
pub struct RefResp {
    pub version: u8,
    pub status: u16,
    /// (lower-case name, trimmed value) in wire order
    pub headers: Vec<(String, Vec<u8>)>,
    pub body: Vec<u8>,
    pub framing: RespFraming,
    /// the whole message (per its own framing) is present in the stream
    pub complete: bool,
    pub start: usize,
    pub head_end: usize,
    pub end: usize,
    pub chunk_sizes: Vec<usize>,
    /// index of the request this final response answers (None for interim 1xx)
    pub req_index: Option<usize>,
}

impl RefResp {
    pub fn header(&self, name: &str) -> Option<&[u8]> {
        self.headers.iter().find(|h| h.0 == name).map(|h| h.1.as_slice())
    }
    pub fn header_count(&self, name: &str) -> usize {
        self.headers.iter().filter(|h| h.0 == name).count()
    }
    pub fn has_close(&self) -> bool {
        self.headers.iter().any(|h| h.0 == "connection" && h.1.to_ascii_lowercase().windows(5).any(|w| w == b"close"))
    }
    pub fn has_keep_alive(&self) -> bool {
        self.headers.iter().any(|h| h.0 == "connection" && h.1.to_ascii_lowercase().windows(10).any(|w| w == b"keep-alive"))
    }
    pub fn req_idx_header(&self) -> Option<usize> {
        self.header("x-req-idx").and_then(|v| std::str::from_utf8(v).ok()).and_then(|s| s.parse().ok())
    }
    pub fn is_interim(&self) -> bool {
        (100..200).contains(&self.status) && self.status != 101
    }
}

#[derive(Clone, Debug)]
pub struct RespParse {
    pub resps: Vec<RefResp>,
    /// offset at which the stream stopped being parseable as responses (garbage between messages)
    pub malformed_at: Option<(usize, &'static str)>,
    /// the stream ends inside a message (the last entry of `resps` has complete == false, or the
    /// head itself is incomplete)
    pub incomplete_tail: bool,
}

fn find(h: &[u8], from: usize, needle: &[u8]) -> Option<usize> {
    if h.len() < needle.len() || from > h.len() - needle.len() {
        return None;
    }
    (from..=h.len() - needle.len()).find(|&i| &h[i..i + needle.len()] == needle)
}

fn trim(v: &[u8]) -> &[u8] {
    let mut a = 0;
    let mut b = v.len();
    while a < b && (v[a] == b' ' || v[a] == b'\t') {
        a += 1;
    }
    while b > a && (v[b - 1] == b' ' || v[b - 1] == b'\t') {
        b -= 1;
    }
    &v[a..b]
}

/// `method_of(i)` is the method of the i-th request (None: unknown / no request, e.g. a 400 sent
/// for an unparseable request).  `eof` says whether the peer closed after `d` (needed to decide
/// completeness of a close-delimited body).
pub fn parse_responses(d: &[u8], method_of: &dyn Fn(usize) -> Option<String>, eof: bool) -> RespParse {
    let mut out = RespParse { resps: vec![], malformed_at: None, incomplete_tail: false };
    let mut pos = 0;
    let mut req_i = 0usize;
    while pos < d.len() {
        let head_end = match find(d, pos, b"\r\n\r\n") {
            Some(i) => i + 4,
            None => {
                // could still be a valid prefix of a head; check the status line start if present
                let avail = &d[pos..];
                let pfx = b"HTTP/1.";
                let n = avail.len().min(pfx.len());
                if avail[..n] != pfx[..n] {
                    out.malformed_at = Some((pos, "bytes after a message that do not start a status line"));
                } else {
                    out.incomplete_tail = true;
                }
                return out;
            }
        };
        let head = &d[pos..head_end - 2];
        let sl_end = find(head, 0, b"\r\n").unwrap();
        let sl = &head[..sl_end];
        if sl.len() < 12 || !(sl.starts_with(b"HTTP/1.1 ") || sl.starts_with(b"HTTP/1.0 ")) || !sl[9..12].iter().all(|b| b.is_ascii_digit()) || (sl.len() > 12 && sl[12] != b' ') {
            out.malformed_at = Some((pos, "malformed status line"));
            return out;
        }
        let version = if sl[7] == b'1' { 11 } else { 10 };
        let status: u16 = std::str::from_utf8(&sl[9..12]).unwrap().parse().unwrap();
        let mut headers = vec![];
        let mut p = sl_end + 2;
        while p < head.len() {
            let le = find(head, p, b"\r\n").unwrap();
            let line = &head[p..le];
            let colon = match line.iter().position(|&b| b == b':') {
                Some(c) if c > 0 => c,
                _ => {
                    out.malformed_at = Some((pos + p, "malformed header line"));
                    return out;
                }
            };
            if line[..colon].iter().any(|&b| b == b' ' || b == b'\t' || !(0x21..=0x7e).contains(&b)) {
                out.malformed_at = Some((pos + p, "malformed header name"));
                return out;
            }
            headers.push((String::from_utf8_lossy(&line[..colon]).to_ascii_lowercase(), trim(&line[colon + 1..]).to_vec()));
            p = le + 2;
        }
        let interim = (100..200).contains(&status) && status != 101;
        let method = if interim { None } else { method_of(req_i) };
        let mut r = RefResp {
            version,
            status,
            headers,
            body: vec![],
            framing: RespFraming::NoBody,
            complete: true,
            start: pos,
            head_end,
            end: head_end,
            chunk_sizes: vec![],
            req_index: if interim { None } else { Some(req_i) },
        };
        if !interim {
            req_i += 1;
        }
        let te_chunked = r.headers.iter().any(|h| h.0 == "transfer-encoding" && h.1.to_ascii_lowercase().ends_with(b"chunked"));
        let cl: Option<u64> = r.header("content-length").and_then(|v| std::str::from_utf8(v).ok()).and_then(|s| s.parse().ok());
        let bodiless = method.as_deref() == Some("HEAD") || (100..200).contains(&status) || status == 204 || status == 304;
        if bodiless {
            r.framing = RespFraming::NoBody;
            pos = head_end;
        } else if te_chunked {
            r.framing = RespFraming::Chunked;
            let mut q = head_end;
            let mut ok = false;
            loop {
                let le = match find(d, q, b"\r\n") {
                    Some(i) => i,
                    None => break,
                };
                let line = &d[q..le];
                let hexlen = line.iter().take_while(|b| b.is_ascii_hexdigit()).count();
                if hexlen == 0 || hexlen > 15 {
                    out.resps.push(r);
                    out.malformed_at = Some((q, "malformed chunk-size line in response"));
                    return out;
                }
                let size = usize::from_str_radix(std::str::from_utf8(&line[..hexlen]).unwrap(), 16).unwrap();
                q = le + 2;
                if size == 0 {
                    // no trailers are ever generated by the server under test
                    if d.len() < q + 2 {
                        break;
                    }
                    if &d[q..q + 2] != b"\r\n" {
                        out.resps.push(r);
                        out.malformed_at = Some((q, "garbage after last-chunk"));
                        return out;
                    }
                    q += 2;
                    ok = true;
                    break;
                }
                if d.len() < q + size {
                    r.body.extend_from_slice(&d[q..]);
                    q = d.len();
                    break;
                }
                r.body.extend_from_slice(&d[q..q + size]);
                r.chunk_sizes.push(size);
                q += size;
                if d.len() < q + 2 {
                    break;
                }
                if &d[q..q + 2] != b"\r\n" {
                    out.resps.push(r);
                    out.malformed_at = Some((q, "chunk data not followed by CRLF"));
                    return out;
                }
                q += 2;
            }
            r.complete = ok;
            pos = if ok { q } else { d.len() };
        } else if let Some(n) = cl {
            r.framing = RespFraming::Cl(n);
            let avail = (d.len() - head_end) as u64;
            if avail >= n {
                r.body = d[head_end..head_end + n as usize].to_vec();
                pos = head_end + n as usize;
            } else {
                r.body = d[head_end..].to_vec();
                r.complete = false;
                pos = d.len();
            }
        } else {
            r.framing = RespFraming::CloseDelimited;
            r.body = d[head_end..].to_vec();
            r.complete = eof;
            pos = d.len();
        }
        r.end = pos;
        let complete = r.complete;
        out.resps.push(r);
        if !complete {
            out.incomplete_tail = true;
            return out;
        }
    }
    out
}
