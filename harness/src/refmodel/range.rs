//! reference model `range` — not built yet.
