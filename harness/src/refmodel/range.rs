//! Reference model `range` (C16): an independent reading of
//!
//! * RFC 7233 §2.1 / §3.1 / §4 (RFC 9110 §14): what a `Range` header means for a representation of
//!   a given length — written from the RFC text, sharing nothing with `http-range` or actix-files;
//! * RFC 7232 §3 / §6 (RFC 9110 §13): which of 412 / 304 / "the normal answer" a GET carrying
//!   `If-Match`, `If-None-Match`, `If-Unmodified-Since`, `If-Modified-Since`, `If-Range` may get.
//!
//! Both return *outcome sets*: where the RFCs leave latitude (invalid syntax may be ignored or
//! rejected, several ranges may be answered by one of them, …) every permitted answer is in the set
//! and the monitor counts which one it saw.

// ------------------------------------------------------------------------------------------------
// Range
// ------------------------------------------------------------------------------------------------

/// A decimal number of arbitrary length (RFC: `1*DIGIT`, no upper bound).
#[derive(Clone, Debug, PartialEq, Eq)]
pub struct Num {
    /// digits without leading zeros ("0" for zero)
    pub digits: String,
    /// value when it fits u64
    pub val: Option<u64>,
}

impl Num {
    fn parse(s: &str) -> Option<Num> {
        if s.is_empty() || !s.bytes().all(|b| b.is_ascii_digit()) {
            return None;
        }
        let t = s.trim_start_matches('0');
        let digits = if t.is_empty() { "0".to_string() } else { t.to_string() };
        let mut val: Option<u64> = Some(0);
        for b in digits.bytes() {
            val = val.and_then(|v| v.checked_mul(10)).and_then(|v| v.checked_add((b - b'0') as u64));
        }
        Some(Num { digits, val })
    }
    fn less_than(&self, o: &Num) -> bool {
        (self.digits.len(), self.digits.as_str()) < (o.digits.len(), o.digits.as_str())
    }
    /// `min(self, cap)` as u64
    fn min_u64(&self, cap: u64) -> u64 {
        match self.val {
            Some(v) => v.min(cap),
            None => cap,
        }
    }
    fn is_zero(&self) -> bool {
        self.val == Some(0)
    }
    /// abstract size class relative to the representation length, for signatures
    pub fn class(&self, len: u64) -> &'static str {
        match self.val {
            None => ">u64",
            Some(0) => "0",
            Some(v) if len > 0 && v == len - 1 => "L-1",
            Some(v) if v == len => "L",
            Some(v) if v < len => "<L",
            Some(v) if v == u64::MAX => "u64max",
            Some(v) if v >= 1 << 63 => ">=2^63",
            Some(_) => ">L",
        }
    }
}

#[derive(Clone, Debug, PartialEq, Eq)]
pub enum Spec {
    /// `first-last`
    FromTo(Num, Num),
    /// `first-`
    From(Num),
    /// `-suffix`
    Suffix(Num),
}

/// Why a header is not a usable byte-range-set.
#[derive(Clone, Copy, Debug, PartialEq, Eq)]
pub enum Ignored {
    /// no `=` / unit is not a token
    NoUnit,
    /// a syntactically fine unit other than `bytes` — RFC: MUST be ignored
    OtherUnit,
    /// `bytes=` followed by nothing but commas and blanks
    EmptyList,
    /// some element is not a byte-range-spec / suffix-byte-range-spec
    BadSpec,
    /// `last-byte-pos < first-byte-pos` — the whole set is invalid
    LastBeforeFirst,
}

#[derive(Clone, Debug, PartialEq, Eq)]
pub enum Kind {
    /// header absent
    Absent,
    /// header present but to be ignored (RFC 7233) or rejected (RFC 9110 permits either)
    Ignored(Ignored),
    /// valid set, no spec satisfiable
    Unsat,
    /// valid set, `sat` lists the resolved satisfiable specs in header order
    Sat,
    /// zero-length representation and a non-zero suffix length: satisfiable by the letter of the
    /// RFC ("the entire representation is used") but not expressible as `Content-Range`
    EmptyRep,
}

#[derive(Clone, Debug)]
pub struct RangeVerdict {
    pub kind: Kind,
    /// inclusive (first, last) of every satisfiable spec, in header order
    pub sat: Vec<(u64, u64)>,
    /// number of specs in the set
    pub nspecs: usize,
    /// the interpretation needed leniency a strict parser would not grant: unit not spelled in
    /// lower case, blanks where the grammar has none.  A server may equally treat it as invalid.
    pub lenient: bool,
    /// some number exceeds u64::MAX: valid per grammar, but an implementation limit may reject it
    pub beyond_u64: bool,
    /// abstract shape of the header relative to `len` (for coverage signatures)
    pub shape: String,
}

impl RangeVerdict {
    fn new(kind: Kind, shape: String) -> Self {
        RangeVerdict { kind, sat: vec![], nspecs: 0, lenient: false, beyond_u64: false, shape }
    }
}

fn is_tchar(b: u8) -> bool {
    b.is_ascii_alphanumeric() || b"!#$%&'*+-.^_`|~".contains(&b)
}

fn is_ows(b: u8) -> bool {
    b == b' ' || b == b'\t'
}

fn trim_ows(s: &str) -> &str {
    s.trim_matches(|c| c == ' ' || c == '\t')
}

/// Parse one list element.  `Ok((spec, needed_leniency))`.
fn parse_spec(el: &str) -> Result<(Spec, bool), ()> {
    // strict: no blanks inside the element; lenient: blanks around either number
    let dash = el.find('-').ok_or(())?;
    let (a_raw, b_raw) = (&el[..dash], &el[dash + 1..]);
    let (a, b) = (trim_ows(a_raw), trim_ows(b_raw));
    let lenient = a.len() != a_raw.len() || b.len() != b_raw.len();
    if a.is_empty() {
        let n = Num::parse(b).ok_or(())?;
        return Ok((Spec::Suffix(n), lenient));
    }
    let first = Num::parse(a).ok_or(())?;
    if b.is_empty() {
        return Ok((Spec::From(first), lenient));
    }
    let last = Num::parse(b).ok_or(())?;
    Ok((Spec::FromTo(first, last), lenient))
}

/// Interpret `header` (None = absent) for a representation of `len` bytes.
pub fn eval_range(header: Option<&str>, len: u64) -> RangeVerdict {
    let h = match header {
        None => return RangeVerdict::new(Kind::Absent, "absent".into()),
        Some(h) => h,
    };
    let eq = match h.find('=') {
        Some(i) => i,
        None => return RangeVerdict::new(Kind::Ignored(Ignored::NoUnit), "no-unit".into()),
    };
    let unit = &h[..eq];
    if unit.is_empty() || !unit.bytes().all(is_tchar) {
        return RangeVerdict::new(Kind::Ignored(Ignored::NoUnit), "bad-unit".into());
    }
    if !unit.eq_ignore_ascii_case("bytes") {
        return RangeVerdict::new(Kind::Ignored(Ignored::OtherUnit), "other-unit".into());
    }
    let mut lenient = unit != "bytes";
    let rest = &h[eq + 1..];
    // `1#element`: OWS is only allowed next to a comma; a blank right after `=` or at the very end
    // without a comma is outside the grammar but universally trimmed.
    if rest.bytes().next().map(is_ows).unwrap_or(false) || rest.bytes().last().map(is_ows).unwrap_or(false) {
        lenient = true;
    }
    let mut specs: Vec<Spec> = vec![];
    for el in rest.split(',') {
        let el = trim_ows(el);
        if el.is_empty() {
            continue; // empty list elements are permitted (RFC 7230 §7)
        }
        match parse_spec(el) {
            Ok((s, l)) => {
                lenient |= l;
                specs.push(s);
            }
            Err(()) => return RangeVerdict::new(Kind::Ignored(Ignored::BadSpec), "bad-spec".into()),
        }
    }
    if specs.is_empty() {
        return RangeVerdict::new(Kind::Ignored(Ignored::EmptyList), "empty-list".into());
    }
    let mut shape = String::new();
    let mut beyond = false;
    let mut sat = vec![];
    let mut empty_rep_suffix = false;
    for (i, s) in specs.iter().enumerate() {
        if i > 0 {
            shape.push(',');
        }
        if i >= 3 {
            shape.push_str("…");
            // still evaluated below, only the shape is abbreviated
        }
        match s {
            Spec::FromTo(a, b) => {
                if i < 3 {
                    shape.push_str(&format!("{}-{}", a.class(len), b.class(len)));
                }
                beyond |= a.val.is_none() || b.val.is_none();
                if b.less_than(a) {
                    return RangeVerdict {
                        kind: Kind::Ignored(Ignored::LastBeforeFirst),
                        sat: vec![],
                        nspecs: specs.len(),
                        lenient,
                        beyond_u64: beyond,
                        shape: "last<first".into(),
                    };
                }
                if let Some(f) = a.val {
                    if f < len {
                        sat.push((f, b.min_u64(len - 1)));
                    }
                }
            }
            Spec::From(a) => {
                if i < 3 {
                    shape.push_str(&format!("{}-", a.class(len)));
                }
                beyond |= a.val.is_none();
                if let Some(f) = a.val {
                    if f < len {
                        sat.push((f, len - 1));
                    }
                }
            }
            Spec::Suffix(n) => {
                if i < 3 {
                    shape.push_str(&format!("-{}", n.class(len)));
                }
                beyond |= n.val.is_none();
                if !n.is_zero() {
                    if len == 0 {
                        empty_rep_suffix = true;
                    } else {
                        let k = n.min_u64(len);
                        sat.push((len - k, len - 1));
                    }
                }
            }
        }
    }
    let kind = if !sat.is_empty() {
        Kind::Sat
    } else if empty_rep_suffix {
        Kind::EmptyRep
    } else {
        Kind::Unsat
    };
    if lenient {
        shape.push_str(";lenient");
    }
    RangeVerdict { kind, sat, nspecs: specs.len(), lenient, beyond_u64: beyond, shape }
}

/// What the server answered, reduced to what the range clauses speak about.
#[derive(Clone, Debug, PartialEq, Eq)]
pub enum RangeAnswer {
    /// 200 with the whole representation
    Full,
    /// 206 for inclusive (first, last)
    Partial(u64, u64),
    /// 416
    NotSatisfiable,
}

/// Is `ans` inside the outcome set of `v`?  `Err(reason)` names the clause.
pub fn range_allows(v: &RangeVerdict, ans: &RangeAnswer) -> Result<&'static str, &'static str> {
    let slack = v.lenient || v.beyond_u64;
    match (&v.kind, ans) {
        (Kind::Absent, RangeAnswer::Full) => Ok("no-range:200"),
        (Kind::Absent, _) => Err("no Range header but the answer is not a plain 200"),

        (Kind::Ignored(_), RangeAnswer::Full) => Ok("invalid:ignored-200"),
        (Kind::Ignored(_), RangeAnswer::NotSatisfiable) => Ok("invalid:rejected-416"),
        // the property only demands that a 206 be exact; which invalid headers a server chooses
        // to make sense of is its business (the monitor counts these — none are expected)
        (Kind::Ignored(_), RangeAnswer::Partial(..)) => Ok("invalid:served-206"),

        (Kind::Unsat, RangeAnswer::NotSatisfiable) => Ok("unsat:416"),
        (Kind::Unsat, RangeAnswer::Full) if slack => Ok("unsat-lenient:200"),
        (Kind::Unsat, RangeAnswer::Full) => Err("valid but unsatisfiable byte-range-set answered 200 instead of 416"),
        (Kind::Unsat, RangeAnswer::Partial(..)) => Err("unsatisfiable byte-range-set answered 206"),

        (Kind::EmptyRep, RangeAnswer::Full) => Ok("empty-rep:200"),
        (Kind::EmptyRep, RangeAnswer::NotSatisfiable) => Ok("empty-rep:416"),
        (Kind::EmptyRep, RangeAnswer::Partial(..)) => Err("206 for a zero-length representation: no Content-Range can describe it"),

        (Kind::Sat, RangeAnswer::Partial(s, e)) => {
            if v.sat.first() == Some(&(*s, *e)) {
                Ok(if v.nspecs > 1 { "sat-multi:206-first" } else { "sat:206" })
            } else if v.sat.contains(&(*s, *e)) {
                Ok("sat-multi:206-other")
            } else {
                Err("206 for a range that is not one of the requested satisfiable ranges")
            }
        }
        (Kind::Sat, RangeAnswer::Full) if v.nspecs > 1 => Ok("sat-multi:200"),
        (Kind::Sat, RangeAnswer::Full) if slack => Ok("sat-lenient:200"),
        (Kind::Sat, RangeAnswer::NotSatisfiable) if slack => Ok("sat-lenient:416"),
        (Kind::Sat, RangeAnswer::Full) => Err("satisfiable single range answered with a full 200 by a server advertising Accept-Ranges"),
        (Kind::Sat, RangeAnswer::NotSatisfiable) => Err("satisfiable byte-range-set answered 416"),
    }
}

/// Strict parse of a `Content-Range` value: `bytes F-L/LEN` or `bytes */LEN`.
#[derive(Clone, Debug, PartialEq, Eq)]
pub enum ContentRange {
    Range(u64, u64, u64),
    Unsatisfied(u64),
}

pub fn parse_content_range(v: &str) -> Option<ContentRange> {
    fn num(s: &str) -> Option<u64> {
        if s.is_empty() || !s.bytes().all(|b| b.is_ascii_digit()) {
            return None;
        }
        s.parse().ok()
    }
    let rest = v.strip_prefix("bytes ")?;
    let (range, len) = rest.split_once('/')?;
    let len = num(len)?;
    if range == "*" {
        return Some(ContentRange::Unsatisfied(len));
    }
    let (f, l) = range.split_once('-')?;
    Some(ContentRange::Range(num(f)?, num(l)?, len))
}

// ------------------------------------------------------------------------------------------------
// Conditional requests
// ------------------------------------------------------------------------------------------------

#[derive(Clone, Debug, PartialEq, Eq)]
pub struct ETag {
    pub weak: bool,
    pub opaque: String,
}

impl ETag {
    pub fn parse(s: &str) -> Option<ETag> {
        let (weak, q) = match s.strip_prefix("W/") {
            Some(r) => (true, r),
            None => (false, s),
        };
        if q.len() < 2 || !q.starts_with('"') || !q.ends_with('"') {
            return None;
        }
        let inner = &q[1..q.len() - 1];
        if !inner.bytes().all(|b| b == 0x21 || (0x23..=0x7e).contains(&b) || b >= 0x80) {
            return None;
        }
        Some(ETag { weak, opaque: inner.to_string() })
    }
    fn strong_eq(&self, o: &ETag) -> bool {
        !self.weak && !o.weak && self.opaque == o.opaque
    }
    fn weak_eq(&self, o: &ETag) -> bool {
        self.opaque == o.opaque
    }
}

#[derive(Clone, Debug, PartialEq, Eq)]
enum TagList {
    Any,
    List(Vec<ETag>),
    Garbage,
}

fn parse_tag_list(v: &str) -> TagList {
    let t = trim_ows(v);
    if t == "*" {
        return TagList::Any;
    }
    let mut out = vec![];
    for el in t.split(',') {
        let el = trim_ows(el);
        if el.is_empty() {
            continue;
        }
        match ETag::parse(el) {
            Some(e) => out.push(e),
            None => return TagList::Garbage,
        }
    }
    if out.is_empty() {
        TagList::Garbage
    } else {
        TagList::List(out)
    }
}

const MONTHS: [&str; 12] = ["Jan", "Feb", "Mar", "Apr", "May", "Jun", "Jul", "Aug", "Sep", "Oct", "Nov", "Dec"];
const WDAYS: [&str; 7] = ["Thu", "Fri", "Sat", "Sun", "Mon", "Tue", "Wed"]; // 1970-01-01 was a Thursday
const WDAYS_LONG: [&str; 7] = ["Thursday", "Friday", "Saturday", "Sunday", "Monday", "Tuesday", "Wednesday"];

fn days_from_civil(y: i64, m: i64, d: i64) -> i64 {
    let y = if m <= 2 { y - 1 } else { y };
    let era = if y >= 0 { y } else { y - 399 } / 400;
    let yoe = y - era * 400;
    let doy = (153 * (if m > 2 { m - 3 } else { m + 9 }) + 2) / 5 + d - 1;
    let doe = yoe * 365 + yoe / 4 - yoe / 100 + doy;
    era * 146_097 + doe - 719_468
}

fn civil_from_days(z: i64) -> (i64, i64, i64) {
    let z = z + 719_468;
    let era = if z >= 0 { z } else { z - 146_096 } / 146_097;
    let doe = z - era * 146_097;
    let yoe = (doe - doe / 1460 + doe / 36_524 - doe / 146_096) / 365;
    let y = yoe + era * 400;
    let doy = doe - (365 * yoe + yoe / 4 - yoe / 100);
    let mp = (5 * doy + 2) / 153;
    let d = doy - (153 * mp + 2) / 5 + 1;
    let m = if mp < 10 { mp + 3 } else { mp - 9 };
    (if m <= 2 { y + 1 } else { y }, m, d)
}

#[derive(Clone, Copy, Debug, PartialEq, Eq)]
pub enum DateFmt {
    Imf,
    Rfc850,
    Asctime,
}

/// Format `secs` (since the epoch, ≥ 0) as an HTTP-date.
pub fn fmt_http_date(secs: i64, f: DateFmt) -> String {
    let days = secs.div_euclid(86_400);
    let rem = secs.rem_euclid(86_400);
    let (y, m, d) = civil_from_days(days);
    let (hh, mm, ss) = (rem / 3600, rem / 60 % 60, rem % 60);
    let wd = days.rem_euclid(7) as usize;
    let mon = MONTHS[(m - 1) as usize];
    match f {
        DateFmt::Imf => format!("{}, {:02} {} {:04} {:02}:{:02}:{:02} GMT", WDAYS[wd], d, mon, y, hh, mm, ss),
        DateFmt::Rfc850 => format!("{}, {:02}-{}-{:02} {:02}:{:02}:{:02} GMT", WDAYS_LONG[wd], d, mon, y % 100, hh, mm, ss),
        DateFmt::Asctime => format!("{} {} {:2} {:02}:{:02}:{:02} {:04}", WDAYS[wd], mon, d, hh, mm, ss, y),
    }
}

fn two(s: &str) -> Option<i64> {
    if s.len() == 2 && s.bytes().all(|b| b.is_ascii_digit()) {
        s.parse().ok()
    } else {
        None
    }
}

fn hms(s: &str) -> Option<(i64, i64, i64)> {
    let mut it = s.split(':');
    let (h, m, sec) = (two(it.next()?)?, two(it.next()?)?, two(it.next()?)?);
    if it.next().is_some() || h > 23 || m > 59 || sec > 60 {
        return None;
    }
    Some((h, m, sec))
}

fn month(s: &str) -> Option<i64> {
    MONTHS.iter().position(|m| *m == s).map(|i| i as i64 + 1)
}

/// Parse an HTTP-date in any of the three formats of RFC 7231 §7.1.1.1 → seconds since the epoch.
/// The reference year for two-digit years is taken as "now ≈ 2026" (generated dates stay within
/// 1980‥2069 so the 50-year rule never matters).
pub fn parse_http_date(v: &str) -> Option<i64> {
    let v = v.trim();
    let (y, m, d, t) = if let Some(rest) = v.strip_suffix(" GMT") {
        let (wd, rest) = rest.split_once(", ")?;
        if WDAYS.contains(&wd) {
            // Sun, 06 Nov 1994 08:49:37
            let p: Vec<&str> = rest.split(' ').collect();
            if p.len() != 4 || p[2].len() != 4 {
                return None;
            }
            (p[2].parse::<i64>().ok()?, month(p[1])?, two(p[0])?, hms(p[3])?)
        } else if WDAYS_LONG.contains(&wd) {
            // Sunday, 06-Nov-94 08:49:37
            let (date, time) = rest.split_once(' ')?;
            let p: Vec<&str> = date.split('-').collect();
            if p.len() != 3 {
                return None;
            }
            let yy = two(p[2])?;
            let y = if yy < 70 { 2000 + yy } else { 1900 + yy };
            (y, month(p[1])?, two(p[0])?, hms(time)?)
        } else {
            return None;
        }
    } else {
        // Sun Nov  6 08:49:37 1994
        let p: Vec<&str> = v.split(' ').filter(|s| !s.is_empty()).collect();
        if p.len() != 5 || !WDAYS.contains(&p[0]) || p[4].len() != 4 {
            return None;
        }
        (p[4].parse::<i64>().ok()?, month(p[1])?, p[2].parse::<i64>().ok()?, hms(p[3])?)
    };
    if !(1..=31).contains(&d) || !(1970..=9999).contains(&y) {
        return None;
    }
    Some(days_from_civil(y, m, d) * 86_400 + t.0 * 3600 + t.1 * 60 + t.2)
}

/// Current validators of the selected representation.
#[derive(Clone, Debug)]
pub struct Validators {
    pub etag: Option<ETag>,
    /// Last-Modified in whole seconds since the epoch
    pub last_modified: Option<i64>,
}

#[derive(Clone, Debug, Default)]
pub struct CondHeaders {
    pub if_match: Option<String>,
    pub if_none_match: Option<String>,
    pub if_unmodified_since: Option<String>,
    pub if_modified_since: Option<String>,
    pub if_range: Option<String>,
}

impl CondHeaders {
    pub fn any(&self) -> bool {
        self.if_match.is_some()
            || self.if_none_match.is_some()
            || self.if_unmodified_since.is_some()
            || self.if_modified_since.is_some()
            || self.if_range.is_some()
    }
}

/// Outcome set of the precondition evaluation for a GET (RFC 7232 §6 order).
#[derive(Clone, Debug, Default)]
pub struct CondVerdict {
    pub allow_412: bool,
    pub allow_304: bool,
    /// "proceed to step 5": the answer the request would get without If-Match / If-None-Match /
    /// If-(Un)modified-Since
    pub allow_normal: bool,
    /// what a strict RFC 7232 §6 evaluation yields: "412" | "304" | "normal"
    pub rfc: &'static str,
    /// If-Range: Some(true) the validator matches (Range applies), Some(false) it does not (Range
    /// MUST be ignored), None: no If-Range
    pub if_range_matches: Option<bool>,
    /// which tolerances widened the set
    pub widened: Vec<&'static str>,
}

#[derive(Clone, Copy, PartialEq, Eq, Debug)]
enum Step {
    Absent,
    True,
    False,
}

fn rfc_eval(im: Step, ius: Step, inm: Step, ims: Step) -> &'static str {
    // step 1/2
    match im {
        Step::False => return "412",
        Step::True => {}
        Step::Absent => {
            if ius == Step::False {
                return "412";
            }
        }
    }
    // step 3/4
    match inm {
        Step::False => return "304",
        Step::True => {}
        Step::Absent => {
            if ims == Step::False {
                return "304";
            }
        }
    }
    "normal"
}

pub fn eval_cond(h: &CondHeaders, v: &Validators) -> CondVerdict {
    let mut out = CondVerdict::default();
    // each header evaluates to a set of possible readings (garbage: unspecified ⇒ all readings)
    let tag_step = |val: &Option<String>, weak_cmp: bool, true_when_match: bool| -> Vec<Step> {
        match val {
            None => vec![Step::Absent],
            Some(s) => match parse_tag_list(s) {
                TagList::Garbage => vec![Step::Absent, Step::True, Step::False],
                TagList::Any => vec![if true_when_match { Step::True } else { Step::False }],
                TagList::List(l) => {
                    let m = match &v.etag {
                        Some(cur) => l.iter().any(|e| if weak_cmp { e.weak_eq(cur) } else { e.strong_eq(cur) }),
                        None => false,
                    };
                    vec![if m == true_when_match { Step::True } else { Step::False }]
                }
            },
        }
    };
    let date_step = |val: &Option<String>, cond: &dyn Fn(i64, i64) -> bool| -> Vec<Step> {
        match (val, v.last_modified) {
            (None, _) => vec![Step::Absent],
            (Some(_), None) => vec![Step::Absent], // no modification date: the header cannot apply
            (Some(s), Some(lm)) => match parse_http_date(s) {
                None => vec![Step::Absent], // invalid HTTP-date: MUST be ignored
                Some(d) => vec![if cond(lm, d) { Step::True } else { Step::False }],
            },
        }
    };
    let im = tag_step(&h.if_match, false, true);
    let inm = tag_step(&h.if_none_match, true, false);
    let ius = date_step(&h.if_unmodified_since, &|lm, d| lm <= d);
    let ims = date_step(&h.if_modified_since, &|lm, d| lm > d);
    if im.len() > 1 || inm.len() > 1 {
        out.widened.push("garbage-entity-tag-list");
    }
    let mut first = true;
    for &a in &im {
        for &b in &ius {
            for &c in &inm {
                for &d in &ims {
                    let r = rfc_eval(a, b, c, d);
                    if first {
                        // the first reading of every header is the RFC's (garbage ⇒ "absent" first)
                        out.rfc = r;
                        first = false;
                    }
                    match r {
                        "412" => out.allow_412 = true,
                        "304" => out.allow_304 = true,
                        _ => out.allow_normal = true,
                    }
                }
            }
        }
    }
    // Tolerated reading: If-Unmodified-Since evaluated although If-Match is present and true
    // (RFC 7232 §3.4 says it MUST be ignored then; a 412 is still a truthful "precondition
    // failed" and within the property's outcome set).
    if im == vec![Step::True] && ius == vec![Step::False] && !out.allow_412 {
        out.allow_412 = true;
        out.widened.push("if-unmodified-since-evaluated-despite-if-match");
    }
    // If-Range (RFC 7233 §3.2): strong entity-tag comparison, or exact date match
    out.if_range_matches = h.if_range.as_ref().map(|s| {
        let s = s.trim();
        if let Some(t) = ETag::parse(s) {
            v.etag.as_ref().map(|cur| t.strong_eq(cur)).unwrap_or(false)
        } else if let (Some(d), Some(lm)) = (parse_http_date(s), v.last_modified) {
            d == lm
        } else {
            false
        }
    });
    out
}

#[cfg(test)]
mod tests {
    use super::*;

    #[test]
    fn dates_roundtrip() {
        for &s in &[0i64, 784_111_777, 1_700_000_000, 1_700_000_000 + 86_400 * 400, 4_102_444_800] {
            for f in [DateFmt::Imf, DateFmt::Rfc850, DateFmt::Asctime] {
                let t = fmt_http_date(s, f);
                if f == DateFmt::Rfc850 && !(0..3_155_760_000).contains(&(s - 0)) {
                    continue;
                }
                assert_eq!(parse_http_date(&t), Some(s), "{t}");
            }
        }
        assert_eq!(fmt_http_date(784_111_777, DateFmt::Imf), "Sun, 06 Nov 1994 08:49:37 GMT");
    }

    #[test]
    fn ranges() {
        let v = eval_range(Some("bytes=0-499"), 10_000);
        assert_eq!((v.kind.clone(), v.sat.clone()), (Kind::Sat, vec![(0, 499)]));
        assert_eq!(eval_range(Some("bytes=-500"), 10_000).sat, vec![(9_500, 9_999)]);
        assert_eq!(eval_range(Some("bytes=9500-"), 10_000).sat, vec![(9_500, 9_999)]);
        assert_eq!(eval_range(Some("bytes=0-0,-1"), 10_000).sat, vec![(0, 0), (9_999, 9_999)]);
        assert_eq!(eval_range(Some("bytes=-5"), 0).kind, Kind::EmptyRep);
        assert_eq!(eval_range(Some("bytes=-0"), 10).kind, Kind::Unsat);
        assert_eq!(eval_range(Some("bytes=10-"), 10).kind, Kind::Unsat);
        assert_eq!(eval_range(Some("bytes=5-4"), 10).kind, Kind::Ignored(Ignored::LastBeforeFirst));
        assert_eq!(eval_range(Some("bytes=0-99999999999999999999"), 10).sat, vec![(0, 9)]);
    }
}
