//! Multipart *generator / encoder* (RFC 2046 §5.1.1, RFC 7578): ground truth by construction.
//!
//! A `Body` is a boundary, an optional preamble, a list of parts (header lines + exact content
//! bytes), a close delimiter with or without the final CRLF and an optional epilogue.  `encode`
//! serialises it and records where every part's headers and content start and end, so the expected
//! fields (and the exact byte offset up to which a parser must have read in order to deliver a given
//! content byte) are known without ever parsing anything.  Nothing here shares code with the
//! repository.
//!
//! Grammar encoded (RFC 2046):
//!
//! ```text
//! multipart-body := [preamble CRLF] "--" boundary CRLF body-part
//!                   *( CRLF "--" boundary CRLF body-part )
//!                   CRLF "--" boundary "--" [CRLF epilogue]
//! body-part      := 1*( field-name ":" [SP] value CRLF ) CRLF *OCTET
//! ```
//!
//! Content is legal iff the delimiter `CRLF "--" boundary` does not occur in it (RFC 2046: the
//! boundary must not appear "as the prefix of any line" of the encapsulated part) — checked as "the
//! first occurrence of the delimiter in `CRLF content CRLF--boundary` is the real one".  No
//! transport padding is generated (composers MUST NOT).  A zero-part body (`--B--`) is what browsers
//! send for an empty form; it is generated with its CRLF.

use crate::util::Rng;

#[derive(Clone, Debug)]
pub struct Part {
    /// header lines exactly as written: (name as written, separator after the colon, value)
    pub headers: Vec<(String, &'static str, String)>,
    /// value of the `name` parameter of a `form-data` Content-Disposition, if one was written
    pub name: Option<String>,
    /// essence of the part's Content-Type header, if one was written
    pub content_type: Option<String>,
    pub content: Vec<u8>,
    /// content class label (evidence only)
    pub class: &'static str,
}

#[derive(Clone, Debug)]
pub struct Body {
    pub boundary: String,
    /// "form-data" | "mixed" | "related"
    pub subtype: &'static str,
    /// whole preamble including its terminating CRLF (empty = none)
    pub preamble: Vec<u8>,
    pub parts: Vec<Part>,
    pub final_crlf: bool,
    /// only written when `final_crlf`
    pub epilogue: Vec<u8>,
    pub quote_boundary: bool,
}

#[derive(Clone, Copy, Debug, PartialEq, Eq)]
pub struct Span {
    /// offset of the first header byte (just after the delimiter line)
    pub hdr_start: usize,
    /// offset of the first content byte (just after the blank line)
    pub content_start: usize,
    /// offset one past the last content byte (= offset of the CR of the following delimiter)
    pub content_end: usize,
}

#[derive(Clone, Debug)]
pub struct Encoded {
    pub bytes: Vec<u8>,
    pub spans: Vec<Span>,
    /// offset of the first byte of the first dash-boundary (= preamble length)
    pub first_boundary: usize,
    /// offset one past the second dash of the close delimiter `--B--`
    pub close_end: usize,
}

pub fn content_type_header(b: &Body) -> String {
    if b.quote_boundary {
        format!("multipart/{}; boundary=\"{}\"", b.subtype, b.boundary)
    } else {
        format!("multipart/{}; boundary={}", b.subtype, b.boundary)
    }
}

pub fn encode(b: &Body) -> Encoded {
    let mut out = Vec::new();
    let mut spans = Vec::new();
    out.extend_from_slice(&b.preamble);
    let first_boundary = out.len();
    out.extend_from_slice(b"--");
    out.extend_from_slice(b.boundary.as_bytes());
    if b.parts.is_empty() {
        out.extend_from_slice(b"--");
    } else {
        for (i, p) in b.parts.iter().enumerate() {
            out.extend_from_slice(b"\r\n");
            let hdr_start = out.len();
            for (n, sep, v) in &p.headers {
                out.extend_from_slice(n.as_bytes());
                out.push(b':');
                out.extend_from_slice(sep.as_bytes());
                out.extend_from_slice(v.as_bytes());
                out.extend_from_slice(b"\r\n");
            }
            out.extend_from_slice(b"\r\n");
            let content_start = out.len();
            out.extend_from_slice(&p.content);
            let content_end = out.len();
            spans.push(Span { hdr_start, content_start, content_end });
            out.extend_from_slice(b"\r\n--");
            out.extend_from_slice(b.boundary.as_bytes());
            if i + 1 == b.parts.len() {
                out.extend_from_slice(b"--");
            }
        }
    }
    let close_end = out.len();
    if b.final_crlf {
        out.extend_from_slice(b"\r\n");
        out.extend_from_slice(&b.epilogue);
    }
    Encoded { bytes: out, spans, first_boundary, close_end }
}

fn find(hay: &[u8], needle: &[u8]) -> Option<usize> {
    if needle.is_empty() || hay.len() < needle.len() {
        return None;
    }
    (0..=hay.len() - needle.len()).find(|&i| &hay[i..i + needle.len()] == needle)
}

pub fn delimiter(boundary: &str) -> Vec<u8> {
    let mut d = b"\r\n--".to_vec();
    d.extend_from_slice(boundary.as_bytes());
    d
}

/// RFC 2046: the delimiter must not occur in the encapsulated content.  The CRLF that ends the
/// header block counts as a line start (content beginning with `--B` is excluded too).
pub fn content_is_legal(content: &[u8], boundary: &str) -> bool {
    let d = delimiter(boundary);
    let mut s = b"\r\n".to_vec();
    s.extend_from_slice(content);
    s.extend_from_slice(&d);
    find(&s, &d) == Some(content.len() + 2)
}

/// Does the content contain a *bare-CR* look-alike `CR "--" boundary` (not preceded by… anything
/// in particular, not followed by LF between CR and the dashes)?  Legal content per the grammar,
/// kept as its own class because a scanner that accepts CR alone as a line break will misread it.
pub fn has_bare_cr_lookalike(content: &[u8], boundary: &str) -> bool {
    let mut d = b"\r--".to_vec();
    d.extend_from_slice(boundary.as_bytes());
    find(content, &d).is_some()
}

// ------------------------------------------------------------------------------------------------
// random generation

/// bchars of RFC 2046 that survive inside an unquoted `boundary=` parameter
const BCHARS_TOKEN: &[u8] = b"0123456789abcdefghijklmnopqrstuvwxyzABCDEFGHIJKLMNOPQRSTUVWXYZ'+_-.";
/// bchars that need the parameter to be quoted
const BCHARS_QUOTED: &[u8] = b"(),/:=? ";

pub fn gen_boundary(rng: &mut Rng) -> (String, bool) {
    let len = match rng.below(10) {
        0 => 1,
        1 => 2,
        2 => rng.range(3, 6),
        3 => 70,
        4 => rng.range(60, 70),
        _ => rng.range(7, 40),
    };
    let style = rng.below(6);
    let mut quoted = rng.chance(1, 6);
    let mut s = String::new();
    for i in 0..len {
        let c = match style {
            // all dashes / dash-heavy: `--B--` vs `--B` ambiguity surface
            0 => *rng.pick(b"--a"),
            // repeated single char: every proper prefix is also a suffix
            1 => b'a',
            // browser style
            2 if i < len / 2 => b'-',
            3 if rng.chance(1, 5) => {
                quoted = true;
                *rng.pick(BCHARS_QUOTED)
            }
            _ => *rng.pick(BCHARS_TOKEN),
        };
        s.push(c as char);
    }
    // a boundary may not end with a space
    if s.ends_with(' ') {
        s.pop();
        s.push('x');
    }
    (s, quoted)
}

pub const CONTENT_CLASSES: &[&str] = &[
    "empty",
    "text",
    "binary",
    "ends-cr",
    "ends-crlf",
    "ends-dashes",
    "ends-crlf-dashes",
    "ends-bprefix",
    "has-bprefix",
    "has-boundary-x",
    "lf-dashes-boundary",
    "cr-heavy",
    "crlf-only",
    "starts-crlf-dashes",
    "delimiter-minus-one",
    "cr-dashes-boundary",
    "near-mix",
];

fn filler(rng: &mut Rng, n: usize) -> Vec<u8> {
    match rng.below(3) {
        0 => (0..n).map(|_| *rng.pick(b"abcdefghij klmnop=&-")).collect(),
        1 => rng.bytes(n),
        _ => (0..n).map(|_| *rng.pick(b"ab\r\n-")).collect(),
    }
}

/// One near-boundary fragment: the things a delimiter scanner has to tell apart from the real one.
fn near_fragment(rng: &mut Rng, boundary: &str) -> Vec<u8> {
    let b = boundary.as_bytes();
    let k = rng.below(b.len()); // proper prefix length (0..len-1)
    let mut v: Vec<u8> = vec![];
    match rng.below(9) {
        0 => v.extend_from_slice(b"\r"),
        1 => v.extend_from_slice(b"\r\n"),
        2 => v.extend_from_slice(b"\r\n-"),
        3 => v.extend_from_slice(b"\r\n--"),
        4 => {
            v.extend_from_slice(b"\r\n--");
            v.extend_from_slice(&b[..k]);
        }
        5 => {
            // boundary followed by x, but not at the start of a line
            v.extend_from_slice(b"q--");
            v.extend_from_slice(b);
            v.push(b'x');
        }
        6 => {
            v.extend_from_slice(b"\n--");
            v.extend_from_slice(b);
            v.extend_from_slice(b"\r\n");
        }
        7 => {
            v.extend_from_slice(b"\r\r\n-");
            v.extend_from_slice(&b[..k]);
        }
        _ => {
            v.extend_from_slice(b"--");
            v.extend_from_slice(b);
            v.extend_from_slice(b"--");
            // make sure it does not start a line
            v.insert(0, b'z');
        }
    }
    v
}

/// Content of the requested class (always legal for `boundary`; falls back to plain text after a
/// few attempts when boundary and class interact, e.g. 1-char boundaries).
pub fn gen_content(rng: &mut Rng, class: &str, boundary: &str, max_len: usize) -> Vec<u8> {
    let b = boundary.as_bytes();
    for _ in 0..8 {
        let n = if max_len == 0 { 0 } else { rng.below(max_len + 1) };
        let mut c: Vec<u8> = match class {
            "empty" => vec![],
            "text" => (0..n).map(|_| *rng.pick(b"abcdefghijklmnopqrstuvwxyz 0123456789=&%-")).collect(),
            "binary" => rng.bytes(n),
            "ends-cr" => {
                let mut v = filler(rng, n);
                v.push(b'\r');
                v
            }
            "ends-crlf" => {
                let mut v = filler(rng, n);
                v.extend_from_slice(b"\r\n");
                v
            }
            "ends-dashes" => {
                let mut v = filler(rng, n);
                v.extend_from_slice(b"--");
                v
            }
            "ends-crlf-dashes" => {
                let mut v = filler(rng, n);
                v.extend_from_slice(b"\r\n--");
                v
            }
            "ends-bprefix" => {
                let mut v = filler(rng, n);
                v.extend_from_slice(b"\r\n--");
                v.extend_from_slice(&b[..rng.below(b.len())]);
                v
            }
            "has-bprefix" => {
                let mut v = filler(rng, n / 2);
                v.extend_from_slice(b"\r\n--");
                v.extend_from_slice(&b[..rng.below(b.len())]);
                v.push(b'!');
                v.extend_from_slice(&filler(rng, n / 2));
                v
            }
            "has-boundary-x" => {
                let mut v = filler(rng, n / 2);
                v.extend_from_slice(b"q--");
                v.extend_from_slice(b);
                v.extend_from_slice(b"x\r\n");
                v.extend_from_slice(&filler(rng, n / 2));
                v
            }
            "lf-dashes-boundary" => {
                let mut v = filler(rng, n / 2);
                v.extend_from_slice(b"a\n--");
                v.extend_from_slice(b);
                v.extend_from_slice(b"\r\n");
                v.extend_from_slice(&filler(rng, n / 2));
                v
            }
            "cr-heavy" => (0..n).map(|_| *rng.pick(b"\r\r\r\n-a")).collect(),
            "crlf-only" => b"\r\n".to_vec(),
            "starts-crlf-dashes" => {
                let mut v = b"\r\n--".to_vec();
                v.extend_from_slice(&b[..rng.below(b.len())]);
                v.push(b'~');
                v.extend_from_slice(&filler(rng, n));
                v
            }
            "cr-dashes-boundary" => {
                // bare CR (no LF) followed by the dash-boundary: not a delimiter per the grammar
                let mut v = filler(rng, n / 2);
                v.extend_from_slice(b"x\r--");
                v.extend_from_slice(b);
                v.extend_from_slice(*rng.pick(&[&b"\r\n"[..], &b"--"[..], &b"z"[..], &b""[..]]));
                v.extend_from_slice(&filler(rng, n / 2));
                v
            }
            "delimiter-minus-one" => {
                // CRLF--boundary with its last character changed
                let mut v = filler(rng, n / 2);
                v.extend_from_slice(b"\r\n--");
                v.extend_from_slice(&b[..b.len() - 1]);
                v.push(if b[b.len() - 1] == b'#' { b'$' } else { b'#' });
                v.extend_from_slice(&filler(rng, n / 2));
                v
            }
            _ => {
                // near-mix
                let mut v = vec![];
                let k = rng.range(1, 6);
                for _ in 0..k {
                    let fl = rng.below(n / k + 2);
                    let f = filler(rng, fl);
                    v.extend_from_slice(&f);
                    v.extend_from_slice(&near_fragment(rng, boundary));
                }
                v
            }
        };
        let bare_ok = class == "cr-dashes-boundary";
        if content_is_legal(&c, boundary) && (bare_ok || !has_bare_cr_lookalike(&c, boundary)) {
            return c;
        }
        // repair: break every accidental delimiter occurrence (bounded)
        let d = delimiter(boundary);
        let mut d2 = b"\r--".to_vec();
        d2.extend_from_slice(b);
        for _ in 0..64 {
            let mut s = b"\r\n".to_vec();
            s.extend_from_slice(&c);
            // index (in the content) of the first dash of a look-alike
            let hit = match find(&s, &d) {
                Some(i) => Some(i), // s index of CR; first dash is at s[i+2] = c[i]
                None if !bare_ok => find(&c, &d2).map(|i| i + 1),
                None => None,
            };
            match hit {
                Some(at) if at < c.len() => c[at] = b'_',
                _ => break,
            }
        }
        if content_is_legal(&c, boundary) && (bare_ok || !has_bare_cr_lookalike(&c, boundary)) {
            return c;
        }
    }
    b"q".to_vec()
}

const NAME_CHARS: &[u8] = b"abcdefghijklmnopqrstuvwxyzABCDEFGHIJKLMNOPQRSTUVWXYZ0123456789_-.[] ";

pub fn gen_name(rng: &mut Rng) -> String {
    let n = rng.range(1, 12);
    let mut s: String = (0..n).map(|_| *rng.pick(NAME_CHARS) as char).collect();
    // keep the quoted-string free of leading/trailing blanks (header value trimming is not C15's business)
    if s.starts_with(' ') || s.ends_with(' ') {
        s = s.replace(' ', "_");
    }
    s
}

/// Options for one random part.
pub struct PartOpts {
    pub subtype: &'static str,
    pub with_cl: bool,
    pub class: &'static str,
    pub max_len: usize,
}

pub fn gen_part(rng: &mut Rng, boundary: &str, o: &PartOpts) -> Part {
    let content = gen_content(rng, o.class, boundary, o.max_len);
    let mut headers: Vec<(String, &'static str, String)> = vec![];
    let mut name = None;
    let mut content_type = None;
    let sep = |rng: &mut Rng| -> &'static str {
        if rng.chance(1, 8) {
            ""
        } else {
            " "
        }
    };
    let form = o.subtype == "form-data";
    if form || rng.chance(1, 2) {
        let n = gen_name(rng);
        let mut v = format!("form-data; name=\"{n}\"");
        if rng.chance(1, 3) {
            v.push_str(&format!("; filename=\"{}.bin\"", gen_name(rng).replace(' ', "_")));
        }
        let hn = *rng.pick(&["Content-Disposition", "content-disposition", "CONTENT-DISPOSITION"]);
        headers.push((hn.to_string(), sep(rng), v));
        name = Some(n);
    }
    if rng.chance(1, 2) {
        let ct = *rng.pick(&["text/plain", "application/octet-stream", "image/png", "text/plain; charset=utf-8"]);
        headers.push(((*rng.pick(&["Content-Type", "content-type"])).to_string(), sep(rng), ct.to_string()));
        content_type = Some(ct.split(';').next().unwrap().to_string());
    }
    if rng.chance(1, 4) || headers.is_empty() {
        headers.push((format!("X-{}", gen_name(rng).replace([' ', '[', ']'], "-")), sep(rng), format!("v{}", rng.below(1000))));
    }
    if o.with_cl {
        headers.push(((*rng.pick(&["Content-Length", "content-length"])).to_string(), sep(rng), content.len().to_string()));
    }
    // header order is free
    if headers.len() > 1 && rng.chance(1, 3) {
        let i = rng.below(headers.len());
        headers.swap(0, i);
    }
    Part { headers, name, content_type, content, class: o.class }
}

/// No line of the preamble is a delimiter line (`--B` or `--B--`, with or without trailing CR).
pub fn preamble_is_legal(preamble: &[u8], boundary: &str) -> bool {
    let open = format!("--{boundary}").into_bytes();
    let close = format!("--{boundary}--").into_bytes();
    preamble.split(|b| *b == b'\n').all(|line| {
        let line = line.strip_suffix(b"\r").unwrap_or(line);
        line != open.as_slice() && line != close.as_slice()
    })
}

/// Preamble: lines that are not the dash-boundary line, ending in CRLF.
pub fn gen_preamble(rng: &mut Rng, boundary: &str) -> Vec<u8> {
    let mut v = vec![];
    for _ in 0..rng.range(1, 3) {
        match rng.below(5) {
            0 => v.extend_from_slice(b"This is a multi-part message in MIME format."),
            1 => {
                // a line that merely *contains* the boundary
                v.extend_from_slice(b"x--");
                v.extend_from_slice(boundary.as_bytes());
            }
            2 => {
                // a line that starts like the dash-boundary and goes on
                v.extend_from_slice(b"--");
                v.extend_from_slice(boundary.as_bytes());
                v.extend_from_slice(b"~not");
            }
            3 => {}
            _ => {
                let line: Vec<u8> = (0..rng.below(30)).map(|_| *rng.pick(b"abc -")).collect();
                // a random line must not happen to be a delimiter line (`--B` / `--B--`)
                if line.starts_with(b"--") {
                    v.push(b'p');
                }
                v.extend_from_slice(&line);
            }
        }
        v.extend_from_slice(b"\r\n");
    }
    v
}
