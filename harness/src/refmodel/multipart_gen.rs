//! reference model `multipart_gen` — not built yet.
