//! Counting global allocator: live bytes and a resettable high-water mark (C05).

use std::{
    alloc::{GlobalAlloc, Layout, System},
    sync::atomic::{AtomicUsize, Ordering::Relaxed},
};

pub struct CountingAlloc;

static LIVE: AtomicUsize = AtomicUsize::new(0);
static PEAK: AtomicUsize = AtomicUsize::new(0);

unsafe impl GlobalAlloc for CountingAlloc {
    unsafe fn alloc(&self, l: Layout) -> *mut u8 {
        let p = System.alloc(l);
        if !p.is_null() {
            let now = LIVE.fetch_add(l.size(), Relaxed) + l.size();
            PEAK.fetch_max(now, Relaxed);
        }
        p
    }
    unsafe fn dealloc(&self, p: *mut u8, l: Layout) {
        System.dealloc(p, l);
        LIVE.fetch_sub(l.size(), Relaxed);
    }
    unsafe fn realloc(&self, p: *mut u8, l: Layout, new: usize) -> *mut u8 {
        let q = System.realloc(p, l, new);
        if !q.is_null() {
            if new >= l.size() {
                let now = LIVE.fetch_add(new - l.size(), Relaxed) + (new - l.size());
                PEAK.fetch_max(now, Relaxed);
            } else {
                LIVE.fetch_sub(l.size() - new, Relaxed);
            }
        }
        q
    }
}

pub fn live() -> usize {
    LIVE.load(Relaxed)
}
/// Reset the high-water mark to the current live size and return that size.
pub fn reset_peak() -> usize {
    let l = LIVE.load(Relaxed);
    PEAK.store(l, Relaxed);
    l
}
pub fn peak() -> usize {
    PEAK.load(Relaxed)
}
