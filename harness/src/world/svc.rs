//! Handler programs: the service mounted on the real `HttpService` is an interpreter.
//!
//! A program says how much of the request body to read and when (gates), what to answer and with
//! which body script.  Everything the handler observes and everything its response body yields is
//! recorded in the shared `World`, so oracles can compare the wire with what the application
//! actually saw / produced.

use std::{
    cell::RefCell,
    collections::VecDeque,
    future::Future,
    io,
    pin::Pin,
    rc::Rc,
    task::{Context, Poll, Waker},
};

use actix_http::{
    body::{BodySize, BodyStream, BoxBody, MessageBody, SizedStream},
    HttpMessage as _, Payload, Request, Response, StatusCode,
};
use bytes::Bytes;
use futures_core::Stream;

/// A counting gate: `wait()` consumes one permit, pending (with waker) while there is none.
#[derive(Default)]
pub struct GateState {
    pub permits: usize,
    pub waiters: Vec<Waker>,
    pub waits_pending: u64,
    /// world sequence number at which the gate was first opened (0: never); handler invocations
    /// carry sequence numbers from the same counter, so "started after the gate opened" is
    /// decidable even when both happen at the same virtual instant
    pub first_open_seq: u64,
}

#[derive(Clone, Debug, PartialEq)]
pub enum ReadMode {
    /// never touch the payload (it is dropped with the request when the handler returns)
    Ignore,
    /// read everything to the end (clean end or error) before responding
    All,
    /// read `k` chunks, then stop and drop the payload with the request
    Chunks(usize),
    /// take the payload and keep it alive, unread, in the world (released by the environment)
    Hold,
    /// respond first; a spawned task reads the payload to its end afterwards
    AfterRespond,
    /// take the payload and drop it immediately, before responding
    DropFirst,
}

#[derive(Clone, Debug, PartialEq)]
pub enum Conn {
    Default,
    Close,
    KeepAlive,
}

#[derive(Clone, Debug, PartialEq)]
pub enum BodyKind {
    /// `BodySize::None` via `()`
    None,
    /// a single `Bytes` (concatenation of the Data steps)
    Bytes,
    /// `SizedStream::new(declared, stream)`
    SizedStream(u64),
    /// `BodyStream::new(stream)`
    BodyStream,
    /// custom `MessageBody` reporting `BodySize::Stream`, yields steps verbatim (empty chunks too)
    CustomStream,
    /// custom `MessageBody` reporting `BodySize::Sized(declared)`
    CustomSized(u64),
}

#[derive(Clone, Debug, PartialEq)]
pub enum BStep {
    Data(Vec<u8>),
    /// wait for one permit of gate `g`
    Wait(usize),
    /// the body stream fails here
    Err,
    /// `times` chunks of `len` generated on the fly (large bodies without holding them)
    Gen { len: usize, times: usize },
}

#[derive(Clone, Debug, PartialEq)]
pub struct Prog {
    pub pre_gate: Option<usize>,
    pub read: ReadMode,
    /// wait for a permit before every chunk read (slow consumer)
    pub read_gate: Option<usize>,
    pub post_gate: Option<usize>,
    pub status: u16,
    pub headers: Vec<(String, String)>,
    pub conn: Conn,
    pub no_chunking: Option<u64>,
    pub kind: BodyKind,
    pub steps: Vec<BStep>,
    /// return `Err` from the service instead of a response (becomes an error response)
    pub fail: bool,
}

impl Default for Prog {
    fn default() -> Self {
        Prog {
            pre_gate: None,
            read: ReadMode::All,
            read_gate: None,
            post_gate: None,
            status: 200,
            headers: vec![],
            conn: Conn::Default,
            no_chunking: None,
            kind: BodyKind::Bytes,
            steps: vec![BStep::Data(b"ok".to_vec())],
            fail: false,
        }
    }
}

#[derive(Clone, Debug, PartialEq, Eq)]
pub enum BodyEnd {
    NotFinished,
    Eof,
    Err(String),
}

#[derive(Clone, Debug, PartialEq, Eq)]
pub enum RespEnd {
    /// response body not (yet) polled to its end
    Open,
    Done,
    Errored,
}

/// What the application saw of one request and produced for it.
#[derive(Clone, Debug)]
pub struct ReqRec {
    pub idx: usize,
    pub seq: u64,
    pub t_ms: u64,
    pub method: String,
    pub target: String,
    pub version: u8,
    /// (lower-case name, value) sorted — HeaderMap iteration order across names is unspecified
    pub headers: Vec<(String, Vec<u8>)>,
    pub body: Vec<u8>,
    pub body_chunks: usize,
    pub body_end: BodyEnd,
    /// sequence number at which the handler returned its response (0: not yet)
    pub responded_seq: u64,
    pub resp_yielded: Vec<u8>,
    pub resp_chunks: Vec<usize>,
    pub resp_end: RespEnd,
    pub resp_dropped: bool,
    pub out_len_at_invoke: usize,
}

pub struct World {
    pub progs: Vec<Prog>,
    pub default_prog: Prog,
    pub reqs: Vec<ReqRec>,
    pub gates: Vec<GateState>,
    pub seq: u64,
    pub held: Vec<(usize, Payload)>,
    pub now_ms: u64,
    /// bytes written to the socket so far (mirrored by the runner so handlers can stamp it)
    pub io: Option<super::io::IoHandle>,
    /// live bytes delivered to handlers (for C05 accounting)
    pub body_bytes_delivered: u64,
    pub resp_bytes_pulled: u64,
    /// keep request / response body bytes in the records (off for the memory-bound workloads,
    /// where only counts are kept so that the harness itself stays O(1))
    pub record_bodies: bool,
}

pub type W = Rc<RefCell<World>>;

pub fn world(progs: Vec<Prog>, ngates: usize) -> W {
    Rc::new(RefCell::new(World {
        progs,
        default_prog: Prog::default(),
        reqs: vec![],
        gates: (0..ngates).map(|_| GateState::default()).collect(),
        seq: 0,
        held: vec![],
        now_ms: 0,
        io: None,
        body_bytes_delivered: 0,
        resp_bytes_pulled: 0,
        record_bodies: true,
    }))
}

pub fn open_gate(w: &W, g: usize, permits: usize) {
    let wakers = {
        let mut wd = w.borrow_mut();
        if g >= wd.gates.len() {
            return;
        }
        wd.seq += 1;
        let seq = wd.seq;
        let gs = &mut wd.gates[g];
        if gs.first_open_seq == 0 {
            gs.first_open_seq = seq;
        }
        gs.permits = gs.permits.saturating_add(permits);
        std::mem::take(&mut gs.waiters)
    };
    for wk in wakers {
        wk.wake();
    }
}

pub fn open_all_gates(w: &W) {
    let n = w.borrow().gates.len();
    for g in 0..n {
        open_gate(w, g, usize::MAX / 2);
    }
}

/// Drop payloads kept alive by `ReadMode::Hold` programs.
pub fn release_held(w: &W) {
    let held = std::mem::take(&mut w.borrow_mut().held);
    drop(held);
}

pub struct GateWait {
    w: W,
    g: usize,
}

impl Future for GateWait {
    type Output = ();
    fn poll(self: Pin<&mut Self>, cx: &mut Context<'_>) -> Poll<()> {
        let mut wd = self.w.borrow_mut();
        let g = self.g;
        if g >= wd.gates.len() {
            return Poll::Ready(());
        }
        let gs = &mut wd.gates[g];
        if gs.permits > 0 {
            if gs.permits < usize::MAX / 4 {
                gs.permits -= 1;
            }
            Poll::Ready(())
        } else {
            gs.waits_pending += 1;
            gs.waiters.push(cx.waker().clone());
            Poll::Pending
        }
    }
}

pub fn wait_gate(w: &W, g: usize) -> GateWait {
    GateWait { w: w.clone(), g }
}

/// The response-body script as a stream; records what it yields.
pub struct ScriptStream {
    w: W,
    idx: usize,
    steps: VecDeque<BStep>,
    finished: bool,
}

impl Stream for ScriptStream {
    type Item = Result<Bytes, io::Error>;
    fn poll_next(mut self: Pin<&mut Self>, cx: &mut Context<'_>) -> Poll<Option<Self::Item>> {
        loop {
            let step = match self.steps.front().cloned() {
                Some(s) => s,
                None => {
                    self.finished = true;
                    let idx = self.idx;
                    self.w.borrow_mut().reqs[idx].resp_end = RespEnd::Done;
                    return Poll::Ready(None);
                }
            };
            match step {
                BStep::Data(d) => {
                    self.steps.pop_front();
                    let idx = self.idx;
                    let mut wd = self.w.borrow_mut();
                    wd.resp_bytes_pulled += d.len() as u64;
                    let rec = wd.record_bodies;
                    let r = &mut wd.reqs[idx];
                    if rec {
                        r.resp_yielded.extend_from_slice(&d);
                        r.resp_chunks.push(d.len());
                    }
                    return Poll::Ready(Some(Ok(Bytes::from(d))));
                }
                BStep::Gen { len, times } => {
                    if times == 0 {
                        self.steps.pop_front();
                        continue;
                    }
                    self.steps[0] = BStep::Gen { len, times: times - 1 };
                    self.w.borrow_mut().resp_bytes_pulled += len as u64;
                    return Poll::Ready(Some(Ok(Bytes::from(vec![b'g'; len]))));
                }
                BStep::Wait(g) => {
                    let mut gw = GateWait { w: self.w.clone(), g };
                    match Pin::new(&mut gw).poll(cx) {
                        Poll::Ready(()) => {
                            self.steps.pop_front();
                            continue;
                        }
                        Poll::Pending => return Poll::Pending,
                    }
                }
                BStep::Err => {
                    self.steps.clear();
                    self.finished = true;
                    let idx = self.idx;
                    self.w.borrow_mut().reqs[idx].resp_end = RespEnd::Errored;
                    return Poll::Ready(Some(Err(io::Error::other("scripted body error"))));
                }
            }
        }
    }
}

impl Drop for ScriptStream {
    fn drop(&mut self) {
        if let Ok(mut wd) = self.w.try_borrow_mut() {
            let idx = self.idx;
            if let Some(r) = wd.reqs.get_mut(idx) {
                r.resp_dropped = true;
            }
        }
    }
}

/// Custom `MessageBody`: no empty-chunk skipping, size as declared by the program.
pub struct ScriptBody {
    size: BodySize,
    stream: ScriptStream,
}

impl MessageBody for ScriptBody {
    type Error = io::Error;
    fn size(&self) -> BodySize {
        self.size
    }
    fn poll_next(mut self: Pin<&mut Self>, cx: &mut Context<'_>) -> Poll<Option<Result<Bytes, io::Error>>> {
        Pin::new(&mut self.stream).poll_next(cx)
    }
}

/// Service error.  A `fail` program builds its response exactly like a successful one (status,
/// headers, connection option, scripted body) and hands it over through the `Err` path, so that
/// the dispatcher's separate error-response code is driven by the same scripts.
pub struct SvcErr(pub u16, pub usize, pub Option<Response<BoxBody>>);

impl std::fmt::Debug for SvcErr {
    fn fmt(&self, f: &mut std::fmt::Formatter<'_>) -> std::fmt::Result {
        write!(f, "SvcErr({}, {})", self.0, self.1)
    }
}

impl std::fmt::Display for SvcErr {
    fn fmt(&self, f: &mut std::fmt::Formatter<'_>) -> std::fmt::Result {
        write!(f, "SvcErr({}, {})", self.0, self.1)
    }
}

impl From<SvcErr> for Response<BoxBody> {
    fn from(e: SvcErr) -> Self {
        if let Some(r) = e.2 {
            return r;
        }
        let mut r = Response::build(StatusCode::from_u16(e.0).unwrap_or(StatusCode::INTERNAL_SERVER_ERROR));
        r.insert_header(("x-req-idx", e.1.to_string()));
        r.message_body(BoxBody::new(Bytes::from_static(b"svc-error"))).unwrap()
    }
}

fn tick(w: &W) -> u64 {
    let mut wd = w.borrow_mut();
    wd.seq += 1;
    wd.seq
}

async fn read_body(w: W, idx: usize, mut pl: Payload, limit: Option<usize>, gate: Option<usize>) {
    use futures_util::StreamExt as _;
    let mut n = 0usize;
    loop {
        if let Some(l) = limit {
            if n >= l {
                return;
            }
        }
        if let Some(g) = gate {
            wait_gate(&w, g).await;
        }
        match pl.next().await {
            Some(Ok(chunk)) => {
                n += 1;
                let mut wd = w.borrow_mut();
                wd.body_bytes_delivered += chunk.len() as u64;
                let rec = wd.record_bodies;
                let r = &mut wd.reqs[idx];
                if rec {
                    r.body.extend_from_slice(&chunk);
                }
                r.body_chunks += 1;
            }
            Some(Err(e)) => {
                // a stream that failed is never polled again (multipart-style error loops)
                w.borrow_mut().reqs[idx].body_end = BodyEnd::Err(format!("{e:?}"));
                return;
            }
            None => {
                w.borrow_mut().reqs[idx].body_end = BodyEnd::Eof;
                return;
            }
        }
    }
}

/// The interpreter: one call per dispatched request.
pub async fn handle(w: W, mut req: Request) -> Result<Response<BoxBody>, SvcErr> {
    let (idx, prog) = {
        let mut wd = w.borrow_mut();
        wd.seq += 1;
        let idx = wd.reqs.len();
        let prog = wd.progs.get(idx).cloned().unwrap_or_else(|| wd.default_prog.clone());
        let mut headers: Vec<(String, Vec<u8>)> =
            req.headers().iter().map(|(k, v)| (k.as_str().to_string(), v.as_bytes().to_vec())).collect();
        headers.sort();
        let version = match req.version() {
            actix_http::Version::HTTP_10 => 10,
            actix_http::Version::HTTP_11 => 11,
            actix_http::Version::HTTP_09 => 9,
            _ => 20,
        };
        let out_len = wd.io.as_ref().map(|io| io.out_len()).unwrap_or(0);
        let rec = ReqRec {
            idx,
            seq: wd.seq,
            t_ms: wd.now_ms,
            method: req.method().as_str().to_string(),
            target: req.uri().to_string(),
            version,
            headers,
            body: vec![],
            body_chunks: 0,
            body_end: BodyEnd::NotFinished,
            responded_seq: 0,
            resp_yielded: vec![],
            resp_chunks: vec![],
            resp_end: RespEnd::Open,
            resp_dropped: false,
            out_len_at_invoke: out_len,
        };
        wd.reqs.push(rec);
        (idx, prog)
    };

    if let Some(g) = prog.pre_gate {
        wait_gate(&w, g).await;
    }
    match prog.read {
        ReadMode::Ignore => {}
        ReadMode::All => read_body(w.clone(), idx, req.take_payload(), None, prog.read_gate).await,
        ReadMode::Chunks(k) => read_body(w.clone(), idx, req.take_payload(), Some(k), prog.read_gate).await,
        ReadMode::Hold => {
            let pl = req.take_payload();
            w.borrow_mut().held.push((idx, pl));
        }
        ReadMode::AfterRespond => {
            let pl = req.take_payload();
            actix_rt::spawn(read_body(w.clone(), idx, pl, None, prog.read_gate));
        }
        ReadMode::DropFirst => drop(req.take_payload()),
    }
    if let Some(g) = prog.post_gate {
        wait_gate(&w, g).await;
    }
    let s = tick(&w);
    w.borrow_mut().reqs[idx].responded_seq = s;
    let mut rb = Response::build(StatusCode::from_u16(prog.status).unwrap_or(StatusCode::OK));
    rb.insert_header(("x-req-idx", idx.to_string()));
    for (k, v) in &prog.headers {
        rb.append_header((k.as_str(), v.as_str()));
    }
    match prog.conn {
        Conn::Default => {}
        Conn::Close => {
            rb.force_close();
        }
        Conn::KeepAlive => {
            rb.keep_alive();
        }
    }
    if let Some(n) = prog.no_chunking {
        rb.no_chunking(n);
    }
    let stream = ScriptStream { w: w.clone(), idx, steps: prog.steps.iter().cloned().collect(), finished: false };
    let body: BoxBody = match prog.kind {
        BodyKind::None => {
            w.borrow_mut().reqs[idx].resp_end = RespEnd::Done;
            drop(stream);
            w.borrow_mut().reqs[idx].resp_dropped = false;
            BoxBody::new(actix_http::body::None::new())
        }
        BodyKind::Bytes => {
            let mut all = Vec::new();
            for s in &prog.steps {
                if let BStep::Data(d) = s {
                    all.extend_from_slice(d);
                }
            }
            {
                let mut wd = w.borrow_mut();
                let r = &mut wd.reqs[idx];
                r.resp_yielded = all.clone();
                r.resp_chunks = vec![all.len()];
                r.resp_end = RespEnd::Done;
            }
            drop(stream);
            w.borrow_mut().reqs[idx].resp_dropped = false;
            BoxBody::new(Bytes::from(all))
        }
        BodyKind::SizedStream(n) => BoxBody::new(SizedStream::new(n, stream)),
        BodyKind::BodyStream => BoxBody::new(BodyStream::new(stream)),
        BodyKind::CustomStream => BoxBody::new(ScriptBody { size: BodySize::Stream, stream }),
        BodyKind::CustomSized(n) => BoxBody::new(ScriptBody { size: BodySize::Sized(n), stream }),
    };
    let resp = rb.message_body(body).map_err(|_| SvcErr(500, idx, None))?;
    if prog.fail {
        return Err(SvcErr(prog.status, idx, Some(resp)));
    }
    Ok(resp)
}

// ---------------------------------------------------------------------------------------------
// JSON (de)serialisation of programs, for replay files and evidence samples.

use serde_json::{json, Value};

impl Prog {
    pub fn to_json(&self) -> Value {
        let read = match &self.read {
            ReadMode::Ignore => json!("ignore"),
            ReadMode::All => json!("all"),
            ReadMode::Chunks(k) => json!({"chunks": k}),
            ReadMode::Hold => json!("hold"),
            ReadMode::AfterRespond => json!("after_respond"),
            ReadMode::DropFirst => json!("drop_first"),
        };
        let kind = match &self.kind {
            BodyKind::None => json!("none"),
            BodyKind::Bytes => json!("bytes"),
            BodyKind::SizedStream(n) => json!({"sized_stream": n}),
            BodyKind::BodyStream => json!("body_stream"),
            BodyKind::CustomStream => json!("custom_stream"),
            BodyKind::CustomSized(n) => json!({"custom_sized": n}),
        };
        let steps: Vec<Value> = self
            .steps
            .iter()
            .map(|s| match s {
                // contents are a deterministic function of (length, request index): keep replays small
                BStep::Data(d) => json!({"data": d.len(), "fill": d.first().copied().unwrap_or(0)}),
                BStep::Wait(g) => json!({"wait": g}),
                BStep::Err => json!("err"),
                BStep::Gen { len, times } => json!({"gen": [len, times]}),
            })
            .collect();
        json!({
            "pre_gate": self.pre_gate, "read": read, "read_gate": self.read_gate, "post_gate": self.post_gate,
            "status": self.status, "headers": self.headers,
            "conn": match self.conn { Conn::Default => "default", Conn::Close => "close", Conn::KeepAlive => "keep-alive" },
            "no_chunking": self.no_chunking, "kind": kind, "steps": steps, "fail": self.fail,
        })
    }

    pub fn from_json(v: &Value) -> Prog {
        let og = |k: &str| v[k].as_u64().map(|x| x as usize);
        let read = match &v["read"] {
            Value::String(s) => match s.as_str() {
                "ignore" => ReadMode::Ignore,
                "hold" => ReadMode::Hold,
                "after_respond" => ReadMode::AfterRespond,
                "drop_first" => ReadMode::DropFirst,
                _ => ReadMode::All,
            },
            o => ReadMode::Chunks(o["chunks"].as_u64().unwrap_or(1) as usize),
        };
        let kind = match &v["kind"] {
            Value::String(s) => match s.as_str() {
                "none" => BodyKind::None,
                "body_stream" => BodyKind::BodyStream,
                "custom_stream" => BodyKind::CustomStream,
                _ => BodyKind::Bytes,
            },
            o => {
                if let Some(n) = o["sized_stream"].as_u64() {
                    BodyKind::SizedStream(n)
                } else {
                    BodyKind::CustomSized(o["custom_sized"].as_u64().unwrap_or(0))
                }
            }
        };
        let steps = v["steps"]
            .as_array()
            .map(|a| {
                a.iter()
                    .map(|s| {
                        if s.as_str() == Some("err") {
                            BStep::Err
                        } else if let Some(g) = s["wait"].as_u64() {
                            BStep::Wait(g as usize)
                        } else if s.get("gen").is_some() {
                            BStep::Gen { len: s["gen"][0].as_u64().unwrap_or(0) as usize, times: s["gen"][1].as_u64().unwrap_or(0) as usize }
                        } else {
                            let n = s["data"].as_u64().unwrap_or(0) as usize;
                            BStep::Data(fill_data(n, s["fill"].as_u64().unwrap_or(0) as u8))
                        }
                    })
                    .collect()
            })
            .unwrap_or_default();
        Prog {
            pre_gate: og("pre_gate"),
            read,
            read_gate: og("read_gate"),
            post_gate: og("post_gate"),
            status: v["status"].as_u64().unwrap_or(200) as u16,
            headers: v["headers"]
                .as_array()
                .map(|a| a.iter().map(|p| (p[0].as_str().unwrap_or("").to_string(), p[1].as_str().unwrap_or("").to_string())).collect())
                .unwrap_or_default(),
            conn: match v["conn"].as_str() {
                Some("close") => Conn::Close,
                Some("keep-alive") => Conn::KeepAlive,
                _ => Conn::Default,
            },
            no_chunking: v["no_chunking"].as_u64(),
            kind,
            steps,
            fail: v["fail"].as_bool().unwrap_or(false),
        }
    }
}

/// Body chunk contents: `n` bytes starting at `first`, cycling through a 251-byte alphabet, so a
/// chunk is reconstructible from (length, first byte) and misplaced bytes are visible.
pub fn fill_data(n: usize, first: u8) -> Vec<u8> {
    (0..n).map(|i| ((first as usize + i) % 251) as u8).collect()
}
