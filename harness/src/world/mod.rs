//! The scripted world the real code runs in.
pub mod alloc;
pub mod exec;
pub mod io;
pub mod svc;
pub mod conn;
pub mod run;
