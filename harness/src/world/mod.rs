//! The scripted world the real code runs in.
pub mod alloc;
