//! Opening a real HTTP/1 (or HTTP/2) server connection on a ScriptIo through public API.

use std::time::Duration;

use actix_codec::Framed;
use actix_http::{body::BodySize, error::DispatchError, h1, HttpService, KeepAlive, Protocol, Request, Response, StatusCode};
use actix_service::{fn_service, Service as _, ServiceFactory as _};

use super::{
    exec::Driven,
    io::{script_io, IoHandle, ScriptIo},
    svc::{handle, wait_gate, SvcErr, W},
};

#[derive(Clone, Debug)]
pub struct ConnCfg {
    /// None: keep-alive disabled; Some(s): timeout in seconds
    pub keep_alive_s: Option<u64>,
    /// 0: disabled
    pub req_timeout_ms: u64,
    /// 0: disabled
    pub disc_timeout_ms: u64,
    pub half_closed: bool,
    pub write_buf: Option<usize>,
    /// gate whose opening is the graceful-shutdown signal
    pub shutdown_gate: Option<usize>,
    /// virtual time that passes between the creation of the service (which starts the cached
    /// clock) and the acceptance of the connection, so that the cached clock is stale by then
    pub accept_delay_ms: u64,
    /// install an upgrade service: it answers `101` through the `Framed` it is handed and ends
    pub upgrade: bool,
    /// install an expect service that refuses (417) every request whose path contains "refuse"
    pub expect_refuse: bool,
}

impl ConnCfg {
    /// every timer off: the configuration under which stalls are judged
    pub fn no_timers() -> Self {
        ConnCfg { keep_alive_s: None, req_timeout_ms: 0, disc_timeout_ms: 0, half_closed: true, write_buf: None, shutdown_gate: None, accept_delay_ms: 0, upgrade: false, expect_refuse: false }
    }
    /// keep-alive on but so long it never fires within a case
    pub fn persistent() -> Self {
        ConnCfg { keep_alive_s: Some(1_000_000), req_timeout_ms: 0, disc_timeout_ms: 0, half_closed: true, write_buf: None, shutdown_gate: None, accept_delay_ms: 0, upgrade: false, expect_refuse: false }
    }
}

pub type ConnResult = Result<(), DispatchError>;

/// Build the real service stack and start one HTTP/1 connection on a fresh scripted socket.
pub async fn open_h1(cfg: &ConnCfg, w: W) -> (Driven<ConnResult>, IoHandle) {
    let (io, h) = script_io();
    w.borrow_mut().io = Some(h.clone());
    let d = open_on(cfg, w, io, Protocol::Http1).await;
    (d, h)
}

pub async fn open_on(cfg: &ConnCfg, w: W, io: ScriptIo, proto: Protocol) -> Driven<ConnResult> {
    let mut b = HttpService::build()
        .keep_alive(match cfg.keep_alive_s {
            None => KeepAlive::Disabled,
            Some(s) => KeepAlive::Timeout(Duration::from_secs(s)),
        })
        .client_request_timeout(Duration::from_millis(cfg.req_timeout_ms))
        .client_disconnect_timeout(Duration::from_millis(cfg.disc_timeout_ms))
        .h1_allow_half_closed(cfg.half_closed);
    if let Some(n) = cfg.write_buf {
        b = b.h1_write_buffer_size(n);
    }
    if let Some(g) = cfg.shutdown_gate {
        let w2 = w.clone();
        b = b.graceful_shutdown_signal(move || wait_gate(&w2, g));
    }
    let w3 = w.clone();
    let main = fn_service(move |req| handle(w3.clone(), req));
    let delay = cfg.accept_delay_ms;
    // the builder's type changes with the optional services, hence one arm per combination
    macro_rules! start {
        ($factory:expr) => {{
            let svc = $factory.new_service(()).await.expect("service init");
            if delay > 0 {
                // let the cached-clock task take its first (immediate) tick now, not after the delay
                super::exec::breathe().await;
                tokio::time::advance(Duration::from_millis(delay)).await;
                super::exec::breathe().await;
            }
            Driven::new(svc.call((io, proto, None)))
        }};
    }
    if cfg.upgrade {
        start!(b.upgrade(fn_service(upgrade_svc)).finish(main))
    } else if cfg.expect_refuse {
        start!(b.expect(fn_service(expect_svc)).finish(main))
    } else {
        start!(b.finish(main))
    }
}

type UpItem = h1::Message<(Response<()>, BodySize)>;

/// What an upgrade handler does first: answer the upgrade request through the framed transport it
/// was given (whatever the dispatcher had not flushed yet travels in the same `Framed`).
async fn upgrade_svc((req, framed): (Request, Framed<ScriptIo, h1::Codec>)) -> Result<(), SvcErr> {
    let mut framed = Box::pin(framed);
    let res = Response::build(StatusCode::SWITCHING_PROTOCOLS).insert_header(("x-upgraded", req.path().to_owned())).finish().drop_body();
    framed.as_mut().write(h1::Message::Item((res, BodySize::None))).map_err(|_| SvcErr(500, 0, None))?;
    std::future::poll_fn(|cx| framed.as_mut().flush::<UpItem>(cx)).await.map_err(|_| SvcErr(500, 0, None))?;
    std::future::poll_fn(|cx| framed.as_mut().close::<UpItem>(cx)).await.map_err(|_| SvcErr(500, 0, None))?;
    Ok(())
}

async fn expect_svc(req: Request) -> Result<Request, SvcErr> {
    if req.path().contains("refuse") {
        Err(SvcErr(417, 999_999, None))
    } else {
        Ok(req)
    }
}

impl ConnCfg {
    pub fn to_json(&self) -> serde_json::Value {
        serde_json::json!({"keep_alive_s": self.keep_alive_s, "req_timeout_ms": self.req_timeout_ms, "disc_timeout_ms": self.disc_timeout_ms,
            "half_closed": self.half_closed, "write_buf": self.write_buf, "shutdown_gate": self.shutdown_gate, "accept_delay_ms": self.accept_delay_ms,
            "upgrade": self.upgrade, "expect_refuse": self.expect_refuse})
    }
    pub fn from_json(v: &serde_json::Value) -> Self {
        ConnCfg {
            keep_alive_s: v["keep_alive_s"].as_u64(),
            req_timeout_ms: v["req_timeout_ms"].as_u64().unwrap_or(0),
            disc_timeout_ms: v["disc_timeout_ms"].as_u64().unwrap_or(0),
            half_closed: v["half_closed"].as_bool().unwrap_or(true),
            write_buf: v["write_buf"].as_u64().map(|x| x as usize),
            shutdown_gate: v["shutdown_gate"].as_u64().map(|x| x as usize),
            accept_delay_ms: v["accept_delay_ms"].as_u64().unwrap_or(0),
            upgrade: v["upgrade"].as_bool().unwrap_or(false),
            expect_refuse: v["expect_refuse"].as_bool().unwrap_or(false),
        }
    }
}
