//! ScriptIo — an in-memory socket whose every readiness transition is decided by the schedule.
//!
//! * inbound: a queue of released segments; one `poll_read` returns at most one segment, so the
//!   segmentation the schedule asks for is exactly what the server sees; `Pending` (waker stored)
//!   when nothing is released; then `Ok(0)` (EOF) or `ECONNRESET` once the script says so.
//! * outbound: a write-credit counter; `poll_write` accepts `min(credit, len, max_write) > 0`
//!   bytes or returns `Pending` and stores the waker; flush / shutdown can be blocked.
//! * wakers are woken only on a not-ready → ready transition, like a real socket, and only if a
//!   `Pending` result actually stored one — a connection that forgot to register is never rescued.

use std::{
    cell::RefCell,
    collections::VecDeque,
    io,
    pin::Pin,
    rc::Rc,
    task::{Context, Poll, Waker},
};

use bytes::Bytes;
use tokio::io::{AsyncRead, AsyncWrite, ReadBuf};

#[derive(Default)]
pub struct IoState {
    pub inq: VecDeque<Bytes>,
    pub in_eof: bool,
    pub in_reset: bool,
    pub read_waker: Option<Waker>,
    pub read_pendings: u64,
    pub read_calls: u64,
    pub bytes_read: u64,
    pub eof_delivered: bool,

    pub out: Vec<u8>,
    pub credit: usize,
    pub max_write: usize,
    pub write_waker: Option<Waker>,
    pub write_pendings: u64,
    pub write_calls: u64,
    pub partial_writes: u64,
    pub write_error: bool,
    /// (bytes written so far, virtual ms) after each accepted write
    pub write_times: Vec<(usize, u64)>,
    pub now_ms: u64,

    pub flush_blocked: bool,
    pub flush_waker: Option<Waker>,
    pub flush_pendings: u64,
    pub shutdown_blocked: bool,
    pub shutdown_waker: Option<Waker>,
    pub shutdown_calls: u64,
    pub shutdown_done: bool,
    /// bytes in `out` at the moment shutdown first completed / the io was dropped
    pub out_at_shutdown: Option<usize>,
    pub dropped: bool,
    pub wakes_delivered: u64,
}

/// Server-side end (moved into the connection).
pub struct ScriptIo(pub Rc<RefCell<IoState>>);

/// Environment-side handle.
#[derive(Clone)]
pub struct IoHandle(pub Rc<RefCell<IoState>>);

pub fn script_io() -> (ScriptIo, IoHandle) {
    let st = Rc::new(RefCell::new(IoState { credit: usize::MAX, max_write: usize::MAX, ..Default::default() }));
    (ScriptIo(st.clone()), IoHandle(st))
}

impl IoHandle {
    /// release one inbound segment
    pub fn push(&self, data: &[u8]) {
        if data.is_empty() {
            return;
        }
        let mut s = self.0.borrow_mut();
        s.inq.push_back(Bytes::copy_from_slice(data));
        if let Some(w) = s.read_waker.take() {
            s.wakes_delivered += 1;
            drop(s);
            w.wake();
        }
    }
    /// peer half-close: after the queued segments, reads return Ok(0)
    pub fn eof(&self) {
        let mut s = self.0.borrow_mut();
        s.in_eof = true;
        if let Some(w) = s.read_waker.take() {
            s.wakes_delivered += 1;
            drop(s);
            w.wake();
        }
    }
    /// peer reset: after the queued segments, reads fail with ECONNRESET
    pub fn reset(&self) {
        let mut s = self.0.borrow_mut();
        s.in_reset = true;
        if let Some(w) = s.read_waker.take() {
            s.wakes_delivered += 1;
            drop(s);
            w.wake();
        }
    }
    pub fn set_credit(&self, n: usize) {
        let mut s = self.0.borrow_mut();
        let was = s.credit;
        s.credit = n;
        if was == 0 && n > 0 {
            if let Some(w) = s.write_waker.take() {
                s.wakes_delivered += 1;
                drop(s);
                w.wake();
            }
        }
    }
    pub fn grant(&self, n: usize) {
        let c = self.0.borrow().credit;
        self.set_credit(c.saturating_add(n));
    }
    pub fn set_max_write(&self, n: usize) {
        self.0.borrow_mut().max_write = n.max(1);
    }
    pub fn block_flush(&self, b: bool) {
        let mut s = self.0.borrow_mut();
        let was = s.flush_blocked;
        s.flush_blocked = b;
        if was && !b {
            if let Some(w) = s.flush_waker.take() {
                s.wakes_delivered += 1;
                drop(s);
                w.wake();
            }
        }
    }
    pub fn block_shutdown(&self, b: bool) {
        let mut s = self.0.borrow_mut();
        let was = s.shutdown_blocked;
        s.shutdown_blocked = b;
        if was && !b {
            if let Some(w) = s.shutdown_waker.take() {
                s.wakes_delivered += 1;
                drop(s);
                w.wake();
            }
        }
    }
    pub fn fail_writes(&self) {
        let mut s = self.0.borrow_mut();
        s.write_error = true;
        if let Some(w) = s.write_waker.take() {
            s.wakes_delivered += 1;
            drop(s);
            w.wake();
        }
    }
    pub fn set_now_ms(&self, ms: u64) {
        self.0.borrow_mut().now_ms = ms;
    }
    pub fn out(&self) -> Vec<u8> {
        self.0.borrow().out.clone()
    }
    pub fn out_len(&self) -> usize {
        self.0.borrow().out.len()
    }
    pub fn pending_in(&self) -> usize {
        self.0.borrow().inq.iter().map(|b| b.len()).sum()
    }
    pub fn bytes_read(&self) -> u64 {
        self.0.borrow().bytes_read
    }
    pub fn closed(&self) -> bool {
        let s = self.0.borrow();
        s.shutdown_done || s.dropped
    }
    pub fn read_waiting(&self) -> bool {
        self.0.borrow().read_waker.is_some()
    }
    pub fn write_waiting(&self) -> bool {
        self.0.borrow().write_waker.is_some()
    }
}

impl AsyncRead for ScriptIo {
    fn poll_read(self: Pin<&mut Self>, cx: &mut Context<'_>, buf: &mut ReadBuf<'_>) -> Poll<io::Result<()>> {
        let mut s = self.0.borrow_mut();
        s.read_calls += 1;
        if let Some(mut seg) = s.inq.pop_front() {
            let n = seg.len().min(buf.remaining());
            buf.put_slice(&seg[..n]);
            s.bytes_read += n as u64;
            if n < seg.len() {
                let rest = seg.split_off(n);
                s.inq.push_front(rest);
            }
            return Poll::Ready(Ok(()));
        }
        if s.in_reset {
            return Poll::Ready(Err(io::Error::new(io::ErrorKind::ConnectionReset, "scripted reset")));
        }
        if s.in_eof {
            s.eof_delivered = true;
            return Poll::Ready(Ok(()));
        }
        s.read_pendings += 1;
        s.read_waker = Some(cx.waker().clone());
        Poll::Pending
    }
}

impl AsyncWrite for ScriptIo {
    fn poll_write(self: Pin<&mut Self>, cx: &mut Context<'_>, data: &[u8]) -> Poll<io::Result<usize>> {
        let mut s = self.0.borrow_mut();
        s.write_calls += 1;
        if s.write_error {
            return Poll::Ready(Err(io::Error::new(io::ErrorKind::BrokenPipe, "scripted write failure")));
        }
        if data.is_empty() {
            return Poll::Ready(Ok(0));
        }
        if s.credit == 0 {
            s.write_pendings += 1;
            s.write_waker = Some(cx.waker().clone());
            return Poll::Pending;
        }
        let n = data.len().min(s.credit).min(s.max_write);
        if n < data.len() {
            s.partial_writes += 1;
        }
        s.out.extend_from_slice(&data[..n]);
        if s.credit != usize::MAX {
            s.credit -= n;
        }
        let (len, now) = (s.out.len(), s.now_ms);
        s.write_times.push((len, now));
        Poll::Ready(Ok(n))
    }

    fn poll_flush(self: Pin<&mut Self>, cx: &mut Context<'_>) -> Poll<io::Result<()>> {
        let mut s = self.0.borrow_mut();
        if s.write_error {
            return Poll::Ready(Err(io::Error::new(io::ErrorKind::BrokenPipe, "scripted write failure")));
        }
        if s.flush_blocked {
            s.flush_pendings += 1;
            s.flush_waker = Some(cx.waker().clone());
            return Poll::Pending;
        }
        Poll::Ready(Ok(()))
    }

    fn poll_shutdown(self: Pin<&mut Self>, cx: &mut Context<'_>) -> Poll<io::Result<()>> {
        let mut s = self.0.borrow_mut();
        s.shutdown_calls += 1;
        if s.shutdown_blocked {
            s.shutdown_waker = Some(cx.waker().clone());
            return Poll::Pending;
        }
        if !s.shutdown_done {
            s.shutdown_done = true;
            s.out_at_shutdown = Some(s.out.len());
        }
        Poll::Ready(Ok(()))
    }
}

impl Drop for ScriptIo {
    fn drop(&mut self) {
        if let Ok(mut s) = self.0.try_borrow_mut() {
            s.dropped = true;
            if s.out_at_shutdown.is_none() {
                s.out_at_shutdown = Some(s.out.len());
            }
        }
    }
}
