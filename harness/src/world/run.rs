//! Scenario runner shared by the HTTP/1 connection properties (C02–C06).
//!
//! A scenario is a configuration, a list of handler programs and a *schedule*: a sequence of
//! environment actions.  After every action the connection future is polled for as long as
//! wake-ups keep arriving (and only then), so the run is a deterministic function of the scenario
//! and a missing wake-up is a logical stall, not a timeout.

use std::time::Duration;

use serde_json::{json, Value};

use super::{
    conn::{open_h1, ConnCfg, ConnResult},
    exec::{breathe, run_virtual, Driven},
    io::IoHandle,
    svc::{open_gate, release_held, world, Prog, ReqRec, W},
};
use crate::util::{esc, unesc};

#[derive(Clone, Debug, PartialEq)]
pub enum Act {
    /// release one inbound read segment
    Push(Vec<u8>),
    /// peer half-close (after the released segments)
    Eof,
    /// peer reset
    Reset,
    /// add write credit (only meaningful once the socket is in limited-credit mode)
    Credit(usize),
    /// set write credit to exactly n (0: writes return Pending)
    SetCredit(usize),
    /// largest single write the socket accepts
    MaxWrite(usize),
    BlockFlush(bool),
    BlockShutdown(bool),
    /// writes fail from now on
    FailWrites,
    /// add `permits` to gate g
    Gate(usize, usize),
    /// drop the payloads kept alive by `ReadMode::Hold` handlers
    ReleaseHeld,
    /// advance the virtual clock by ms
    Advance(u64),
    /// several actions applied before the connection is polled again (events that become visible
    /// to one and the same poll)
    Batch(Vec<Act>),
}

impl Act {
    pub fn to_json(&self) -> Value {
        match self {
            Act::Push(d) => json!({"push": esc(d)}),
            Act::Eof => json!("eof"),
            Act::Reset => json!("reset"),
            Act::Credit(n) => json!({"credit": n}),
            Act::SetCredit(n) => json!({"set_credit": n}),
            Act::MaxWrite(n) => json!({"max_write": n}),
            Act::BlockFlush(b) => json!({"block_flush": b}),
            Act::BlockShutdown(b) => json!({"block_shutdown": b}),
            Act::FailWrites => json!("fail_writes"),
            Act::Gate(g, p) => json!({"gate": [g, p]}),
            Act::ReleaseHeld => json!("release_held"),
            Act::Advance(ms) => json!({"advance": ms}),
            Act::Batch(v) => json!({"batch": v.iter().map(|a| a.to_json()).collect::<Vec<_>>()}),
        }
    }
    pub fn from_json(v: &Value) -> Option<Act> {
        if let Some(s) = v.as_str() {
            return match s {
                "eof" => Some(Act::Eof),
                "reset" => Some(Act::Reset),
                "fail_writes" => Some(Act::FailWrites),
                "release_held" => Some(Act::ReleaseHeld),
                _ => None,
            };
        }
        let o = v.as_object()?;
        let (k, x) = o.iter().next()?;
        let n = || x.as_u64().map(|n| n as usize);
        match k.as_str() {
            "push" => Some(Act::Push(unesc(x.as_str()?))),
            "credit" => Some(Act::Credit(n()?)),
            "set_credit" => Some(Act::SetCredit(n()?)),
            "max_write" => Some(Act::MaxWrite(n()?)),
            "block_flush" => Some(Act::BlockFlush(x.as_bool()?)),
            "block_shutdown" => Some(Act::BlockShutdown(x.as_bool()?)),
            "gate" => Some(Act::Gate(x[0].as_u64()? as usize, x[1].as_u64()? as usize)),
            "advance" => Some(Act::Advance(x.as_u64()?)),
            "batch" => Some(Act::Batch(x.as_array()?.iter().filter_map(Act::from_json).collect())),
            _ => None,
        }
    }
    /// short mnemonic for schedule-shape signatures
    pub fn tag(&self) -> String {
        match self {
            Act::Push(_) => "P".into(),
            Act::Eof => "E".into(),
            Act::Reset => "R".into(),
            Act::Credit(_) => "c".into(),
            Act::SetCredit(0) => "z".into(),
            Act::SetCredit(_) => "C".into(),
            Act::MaxWrite(_) => "m".into(),
            Act::BlockFlush(true) => "F".into(),
            Act::BlockFlush(false) => "f".into(),
            Act::BlockShutdown(true) => "S".into(),
            Act::BlockShutdown(false) => "s".into(),
            Act::FailWrites => "X".into(),
            Act::Gate(g, _) => format!("g{g}"),
            Act::ReleaseHeld => "h".into(),
            Act::Advance(_) => "t".into(),
            Act::Batch(v) => format!("[{}]", v.iter().map(|a| a.tag()).collect::<String>()),
        }
    }
}

pub fn acts_to_json(a: &[Act]) -> Value {
    Value::Array(a.iter().map(|x| x.to_json()).collect())
}
pub fn acts_from_json(v: &Value) -> Vec<Act> {
    v.as_array().map(|a| a.iter().filter_map(Act::from_json).collect()).unwrap_or_default()
}

#[derive(Clone, Debug)]
pub struct Scenario {
    pub cfg: ConnCfg,
    pub progs: Vec<Prog>,
    pub default_prog: Option<Prog>,
    pub ngates: usize,
    /// the adversarial part of the schedule
    pub acts: Vec<Act>,
    /// the settling phase: enables whatever is still disabled, one item at a time
    pub settle: Vec<Act>,
    /// socket starts with this much write credit (None: unlimited)
    pub initial_credit: Option<usize>,
    /// poll cap after the last action (self-wake livelock guard: never terminating)
    pub poll_cap: u64,
    /// poll cap after every other action: self-wake spinning while something is still disabled
    /// (e.g. a full read buffer behind a pending handler) is counted, not judged
    pub mid_cap: u64,
}

impl Scenario {
    pub fn new(cfg: ConnCfg, progs: Vec<Prog>, ngates: usize) -> Self {
        Scenario { cfg, progs, default_prog: None, ngates, acts: vec![], settle: vec![], initial_credit: None, poll_cap: 20_000, mid_cap: 3_000 }
    }
}

/// State of the world after one action has been applied and the connection has gone quiet.
#[derive(Clone, Debug)]
pub struct Snap {
    pub out_len: usize,
    pub n_reqs: usize,
    pub done: bool,
    pub polls: u64,
    pub t_ms: u64,
    pub bytes_read: u64,
    pub closed: bool,
    pub shutdown_calls: u64,
}

#[derive(Clone, Debug)]
pub struct Outcome {
    pub out: Vec<u8>,
    pub reqs: Vec<ReqRec>,
    /// one per action of `acts` then one per action of `settle`
    pub snaps: Vec<Snap>,
    pub done: bool,
    /// Ok / Err(text) when the connection future resolved
    pub result: Option<Result<(), String>>,
    pub closed: bool,
    pub shutdown_done: bool,
    pub dropped: bool,
    pub out_at_shutdown: Option<usize>,
    /// the connection was still waking itself after `poll_cap` polls following the last action
    pub livelock: bool,
    /// number of earlier actions after which it was still self-waking at `mid_cap` polls
    pub spins: u64,
    /// after the settling phase: future still pending and no wake-up outstanding
    pub stalled: bool,
    /// ... and what a forced poll did then (diagnosis only)
    pub stall_forced_poll_progress: bool,
    pub polls: u64,
    pub wakes: u64,
    pub read_pendings: u64,
    pub write_pendings: u64,
    pub partial_writes: u64,
    pub flush_pendings: u64,
    pub pending_in: usize,
    pub bytes_read: u64,
    pub write_times: Vec<(usize, u64)>,
    pub resp_bytes_pulled: u64,
    pub body_bytes_delivered: u64,
    pub end_ms: u64,
    /// sequence number at which each gate was first opened (0: never)
    pub gate_open_seq: Vec<u64>,
    /// the server's read side has actually observed the peer's FIN (a read returned 0)
    pub eof_delivered: bool,
}

fn result_text(r: &ConnResult) -> Result<(), String> {
    match r {
        Ok(()) => Ok(()),
        Err(e) => Err(format!("{e:?}")),
    }
}

async fn quiet(d: &mut Driven<ConnResult>, cap: u64, livelock: &mut bool) {
    let mut n = 0;
    loop {
        breathe().await;
        if d.done() || !d.poll_if_woken() {
            return;
        }
        n += 1;
        if n >= cap {
            *livelock = true;
            return;
        }
    }
}

async fn apply(a: &Act, io: &IoHandle, w: &W, now_ms: &mut u64) {
    if let Act::Batch(v) = a {
        for x in v {
            apply_one(x, io, w, now_ms).await;
        }
        return;
    }
    apply_one(a, io, w, now_ms).await
}

async fn apply_one(a: &Act, io: &IoHandle, w: &W, now_ms: &mut u64) {
    match a {
        Act::Batch(_) => {}
        Act::Push(d) => io.push(d),
        Act::Eof => io.eof(),
        Act::Reset => io.reset(),
        Act::Credit(n) => io.grant(*n),
        Act::SetCredit(n) => io.set_credit(*n),
        Act::MaxWrite(n) => io.set_max_write(*n),
        Act::BlockFlush(b) => io.block_flush(*b),
        Act::BlockShutdown(b) => io.block_shutdown(*b),
        Act::FailWrites => io.fail_writes(),
        Act::Gate(g, p) => open_gate(w, *g, *p),
        Act::ReleaseHeld => release_held(w),
        Act::Advance(ms) => {
            // advance in ≤ 250 ms steps so the cached-clock service and the connection's timers
            // interleave the way they do in real time
            let mut left = *ms;
            while left > 0 {
                let step = left.min(250);
                tokio::time::advance(Duration::from_millis(step)).await;
                left -= step;
                *now_ms += step;
                io.set_now_ms(*now_ms);
                w.borrow_mut().now_ms = *now_ms;
                breathe().await;
            }
        }
    }
}

pub fn run_scenario(sc: &Scenario) -> Outcome {
    let sc = sc.clone();
    run_virtual(async move {
        let w = world(sc.progs.clone(), sc.ngates);
        if let Some(p) = &sc.default_prog {
            w.borrow_mut().default_prog = p.clone();
        }
        let (mut d, io) = open_h1(&sc.cfg, w.clone()).await;
        if let Some(c) = sc.initial_credit {
            io.set_credit(c);
        }
        let mut livelock = false;
        let mut spins = 0u64;
        let mut now_ms = 0u64;
        let mut snaps = Vec::with_capacity(sc.acts.len() + sc.settle.len());
        let total = sc.acts.len() + sc.settle.len();
        let mut spun = false;
        quiet(&mut d, sc.mid_cap, &mut spun).await;
        for (ai, a) in sc.acts.iter().chain(sc.settle.iter()).enumerate() {
            apply(a, &io, &w, &mut now_ms).await;
            if ai + 1 == total {
                quiet(&mut d, sc.poll_cap, &mut livelock).await;
            } else {
                let mut spun = false;
                quiet(&mut d, sc.mid_cap, &mut spun).await;
                spins += u64::from(spun);
            }
            snaps.push(Snap {
                out_len: io.out_len(),
                n_reqs: w.borrow().reqs.len(),
                done: d.done(),
                polls: d.polls,
                t_ms: now_ms,
                bytes_read: io.bytes_read(),
                closed: io.closed(),
                shutdown_calls: io.0.borrow().shutdown_calls,
            });
        }
        let stalled = !d.done() && !d.woken() && !livelock;
        let mut forced = false;
        if stalled {
            let before = (io.out_len(), w.borrow().reqs.len(), io.bytes_read());
            d.poll_now();
            quiet(&mut d, sc.poll_cap, &mut livelock).await;
            forced = d.done() || before != (io.out_len(), w.borrow().reqs.len(), io.bytes_read());
        }
        let s = io.0.borrow();
        let wd = w.borrow();
        Outcome {
            out: s.out.clone(),
            reqs: wd.reqs.clone(),
            snaps,
            done: d.done(),
            result: d.result.as_ref().map(result_text),
            closed: s.shutdown_done || s.dropped,
            shutdown_done: s.shutdown_done,
            dropped: s.dropped,
            out_at_shutdown: s.out_at_shutdown,
            livelock,
            spins,
            stalled,
            stall_forced_poll_progress: forced,
            polls: d.polls,
            wakes: d.wakes(),
            read_pendings: s.read_pendings,
            write_pendings: s.write_pendings,
            partial_writes: s.partial_writes,
            flush_pendings: s.flush_pendings,
            pending_in: s.inq.iter().map(|b| b.len()).sum(),
            bytes_read: s.bytes_read,
            write_times: s.write_times.clone(),
            resp_bytes_pulled: wd.resp_bytes_pulled,
            body_bytes_delivered: wd.body_bytes_delivered,
            end_ms: now_ms,
            gate_open_seq: wd.gates.iter().map(|g| g.first_open_seq).collect(),
            eof_delivered: s.eof_delivered,
        }
    })
}

/// Human-readable trace of a run (enabled by AVMON_DEBUG in the property modules).
pub fn debug_dump(sc: &Scenario, oc: &Outcome) {
    for (i, a) in sc.acts.iter().chain(sc.settle.iter()).enumerate() {
        let Some(sn) = oc.snaps.get(i) else { break };
        let what = match a {
            Act::Push(d) => format!("push {} bytes: {}", d.len(), crate::util::esc_short(d, 60)),
            other => format!("{other:?}"),
        };
        eprintln!("{}act {i:2} {what}\n        -> out={} reqs={} read={} done={} closed={} polls={} t={}ms", if i == sc.acts.len() { "---- settle ----\n" } else { "" }, sn.out_len, sn.n_reqs, sn.bytes_read, sn.done, sn.closed, sn.polls, sn.t_ms);
    }
    eprintln!("result={:?} done={} stalled={} forced_progress={} livelock={} pending_in={} polls={} wakes={}", oc.result, oc.done, oc.stalled, oc.stall_forced_poll_progress, oc.livelock, oc.pending_in, oc.polls, oc.wakes);
    for r in &oc.reqs {
        eprintln!("req {} {} {} body={} end={:?} responded_seq={} resp_end={:?} yielded={} out_at_invoke={}", r.idx, r.method, r.target, r.body.len(), r.body_end, r.responded_seq, r.resp_end, r.resp_yielded.len(), r.out_len_at_invoke);
    }
    eprintln!("wire ({} bytes): {}", oc.out.len(), crate::util::esc_short(&oc.out, 1200));
}
