//! StepExec — a wake-driven executor for one future under test.
//!
//! The future is held pinned by the harness (not spawned) and is polled **only when its waker
//! fired**.  A missing wake-up therefore shows up as a deterministic, logical stall ("schedule
//! exhausted, everything enabled, future Pending, nobody will ever wake it") instead of a
//! wall-clock timeout.

use std::{
    future::Future,
    pin::Pin,
    sync::{
        atomic::{AtomicBool, AtomicU64, Ordering::SeqCst},
        Arc,
    },
    task::{Context, Poll, Wake, Waker},
};

pub struct FlagWaker {
    pub flag: AtomicBool,
    pub wakes: AtomicU64,
}

impl Wake for FlagWaker {
    fn wake(self: Arc<Self>) {
        self.flag.store(true, SeqCst);
        self.wakes.fetch_add(1, SeqCst);
    }
    fn wake_by_ref(self: &Arc<Self>) {
        self.flag.store(true, SeqCst);
        self.wakes.fetch_add(1, SeqCst);
    }
}

pub struct Driven<T> {
    fut: Option<Pin<Box<dyn Future<Output = T>>>>,
    fw: Arc<FlagWaker>,
    waker: Waker,
    pub polls: u64,
    pub result: Option<T>,
}

impl<T> Driven<T> {
    pub fn new(fut: impl Future<Output = T> + 'static) -> Self {
        let fw = Arc::new(FlagWaker { flag: AtomicBool::new(true), wakes: AtomicU64::new(0) });
        let waker = Waker::from(fw.clone());
        Driven { fut: Some(Box::pin(fut)), fw, waker, polls: 0, result: None }
    }
    pub fn done(&self) -> bool {
        self.fut.is_none()
    }
    pub fn woken(&self) -> bool {
        self.fw.flag.load(SeqCst)
    }
    pub fn wakes(&self) -> u64 {
        self.fw.wakes.load(SeqCst)
    }
    /// Poll once if (and only if) a wake-up was delivered since the last poll.
    pub fn poll_if_woken(&mut self) -> bool {
        if self.fut.is_none() || !self.fw.flag.swap(false, SeqCst) {
            return false;
        }
        self.poll_now();
        true
    }
    /// Poll regardless of the flag (used only to *diagnose* a stall, never to judge one).
    pub fn poll_now(&mut self) {
        if let Some(f) = self.fut.as_mut() {
            self.polls += 1;
            let mut cx = Context::from_waker(&self.waker);
            if let Poll::Ready(v) = f.as_mut().poll(&mut cx) {
                self.result = Some(v);
                self.fut = None;
            }
        }
    }
    /// Drop the future (connection torn down by the environment).
    pub fn abandon(&mut self) {
        self.fut = None;
    }
}

/// Let spawned helper tasks and expired timers run.
pub async fn breathe() {
    for _ in 0..3 {
        tokio::task::yield_now().await;
    }
}

/// Poll `d` for as long as wake-ups keep arriving (bounded).  Returns the number of polls made.
/// `cap` exhausted ⇒ returns `None` (self-waking livelock: reported by callers as inconclusive or
/// as a violation of bounded progress, depending on the property).
pub async fn settle<T>(d: &mut Driven<T>, cap: u64) -> Option<u64> {
    let mut n = 0;
    loop {
        breathe().await;
        if d.done() {
            return Some(n);
        }
        if !d.poll_if_woken() {
            return Some(n);
        }
        n += 1;
        if n >= cap {
            return None;
        }
    }
}

/// Run `f` as the root future of a fresh actix System whose tokio runtime is single-threaded
/// with the clock paused (virtual time).
pub fn run_virtual<T: 'static>(f: impl Future<Output = T> + 'static) -> T {
    let sys = actix_rt::System::with_tokio_rt(|| {
        tokio::runtime::Builder::new_current_thread().enable_all().start_paused(true).build().unwrap()
    });
    sys.block_on(f)
}
