//! Small deterministic utilities: PRNG, hashing, JSON helpers.

use std::fmt::Write as _;

/// SplitMix64: tiny, seedable, good enough for workload generation; every random choice in the
/// harness comes from one of these seeded from (VERIF_SEED, property, shard, case index).
#[derive(Clone, Debug)]
pub struct Rng(pub u64);

impl Rng {
    pub fn new(seed: u64) -> Self {
        Rng(seed ^ 0x9E37_79B9_7F4A_7C15)
    }
    pub fn derive(seed: u64, a: u64, b: u64) -> Self {
        let mut r = Rng::new(seed);
        r.0 ^= a.wrapping_mul(0xBF58_476D_1CE4_E5B9);
        r.next();
        r.0 ^= b.wrapping_mul(0x94D0_49BB_1331_11EB);
        r.next();
        r
    }
    pub fn next(&mut self) -> u64 {
        self.0 = self.0.wrapping_add(0x9E37_79B9_7F4A_7C15);
        let mut z = self.0;
        z = (z ^ (z >> 30)).wrapping_mul(0xBF58_476D_1CE4_E5B9);
        z = (z ^ (z >> 27)).wrapping_mul(0x94D0_49BB_1331_11EB);
        z ^ (z >> 31)
    }
    /// uniform in 0..n (n > 0)
    pub fn below(&mut self, n: usize) -> usize {
        debug_assert!(n > 0);
        (self.next() % n as u64) as usize
    }
    /// uniform in lo..=hi
    pub fn range(&mut self, lo: usize, hi: usize) -> usize {
        lo + self.below(hi - lo + 1)
    }
    pub fn chance(&mut self, num: usize, den: usize) -> bool {
        self.below(den) < num
    }
    pub fn pick<'a, T>(&mut self, xs: &'a [T]) -> &'a T {
        &xs[self.below(xs.len())]
    }
    pub fn bytes(&mut self, n: usize) -> Vec<u8> {
        (0..n).map(|_| self.next() as u8).collect()
    }
    /// random cut positions (sorted, distinct, strictly inside 0..len)
    pub fn cuts(&mut self, len: usize, max_cuts: usize) -> Vec<usize> {
        if len < 2 {
            return vec![];
        }
        let k = self.below(max_cuts + 1);
        let mut v: Vec<usize> = (0..k).map(|_| self.range(1, len - 1)).collect();
        v.sort_unstable();
        v.dedup();
        v
    }
}

pub fn fnv(data: &[u8]) -> u64 {
    let mut h: u64 = 0xcbf2_9ce4_8422_2325;
    for &b in data {
        h ^= b as u64;
        h = h.wrapping_mul(0x0000_0100_0000_01B3);
    }
    h
}

pub fn fnv_str(s: &str) -> u64 {
    fnv(s.as_bytes())
}

/// Printable rendering of bytes for samples and replays (lossless: \xNN for non-printables).
pub fn esc(data: &[u8]) -> String {
    let mut s = String::with_capacity(data.len() + 8);
    for &b in data {
        match b {
            b'\r' => s.push_str("\\r"),
            b'\n' => s.push_str("\\n"),
            b'\\' => s.push_str("\\\\"),
            0x20..=0x7e => s.push(b as char),
            _ => {
                let _ = write!(s, "\\x{:02x}", b);
            }
        }
    }
    s
}

/// Inverse of `esc`.
pub fn unesc(s: &str) -> Vec<u8> {
    let b = s.as_bytes();
    let mut out = Vec::with_capacity(b.len());
    let mut i = 0;
    while i < b.len() {
        if b[i] == b'\\' && i + 1 < b.len() {
            match b[i + 1] {
                b'r' => {
                    out.push(b'\r');
                    i += 2;
                }
                b'n' => {
                    out.push(b'\n');
                    i += 2;
                }
                b'\\' => {
                    out.push(b'\\');
                    i += 2;
                }
                b'x' if i + 3 < b.len() => {
                    let h = std::str::from_utf8(&b[i + 2..i + 4]).unwrap_or("00");
                    out.push(u8::from_str_radix(h, 16).unwrap_or(0));
                    i += 4;
                }
                _ => {
                    out.push(b[i]);
                    i += 1;
                }
            }
        } else {
            out.push(b[i]);
            i += 1;
        }
    }
    out
}

/// Truncated escaped rendering for human-facing detail strings.
pub fn esc_short(data: &[u8], max: usize) -> String {
    if data.len() <= max {
        esc(data)
    } else {
        format!("{}…(+{} bytes)", esc(&data[..max]), data.len() - max)
    }
}

pub fn hex(data: &[u8]) -> String {
    let mut s = String::with_capacity(data.len() * 2);
    for b in data {
        let _ = write!(s, "{:02x}", b);
    }
    s
}

pub fn unhex(s: &str) -> Vec<u8> {
    (0..s.len() / 2)
        .map(|i| u8::from_str_radix(&s[2 * i..2 * i + 2], 16).unwrap_or(0))
        .collect()
}

/// Split `data` at `cuts` (sorted positions) into owned segments.
pub fn split_at_cuts(data: &[u8], cuts: &[usize]) -> Vec<Vec<u8>> {
    let mut out = Vec::with_capacity(cuts.len() + 1);
    let mut prev = 0;
    for &c in cuts {
        if c > prev && c < data.len() {
            out.push(data[prev..c].to_vec());
            prev = c;
        }
    }
    out.push(data[prev..].to_vec());
    out
}
