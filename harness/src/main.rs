//! avmon — runtime monitors for the actix-web properties C01–C19.
//!
//! `avmon <ID> --tier quick|thorough --seed N --shard i/n --log FILE [--replay FILE]
//!        [--budget SECS] [--scale PCT] [--layer NAME]`
//!
//! Each invocation is one shard of one property's workload.  It links the real crates from the
//! repository working tree, drives them, lets the property's oracle observe, and writes an event
//! log that the driver merges.  Exit status is 0 when the shard ran to completion (violations are
//! reported through the log, not the exit status), non-zero on a harness failure.

#![allow(clippy::too_many_arguments, clippy::type_complexity)]

mod gen;
mod props;
mod refmodel;
mod report;
mod util;
mod world;

use std::time::Instant;

use report::{Ctx, Reporter, Tier};

#[cfg(not(miri))]
#[global_allocator]
static ALLOC: world::alloc::CountingAlloc = world::alloc::CountingAlloc;

fn main() {
    let args: Vec<String> = std::env::args().collect();
    if args.len() < 2 {
        eprintln!("usage: avmon <ID> --tier T --seed N --shard i/n --log FILE [--replay FILE]");
        std::process::exit(2);
    }
    let id = args[1].clone();
    let mut tier = Tier::Quick;
    let mut seed = 0u64;
    let (mut shard, mut nshards) = (0u64, 1u64);
    let mut log = format!("/dev/stdout");
    let mut replay = None;
    let mut budget_s = 3600u64;
    let mut scale_pct = 100u64;
    let mut layer = "mon".to_string();
    let mut i = 2;
    while i < args.len() {
        let v = args.get(i + 1).cloned().unwrap_or_default();
        match args[i].as_str() {
            "--tier" => tier = if v == "thorough" { Tier::Thorough } else { Tier::Quick },
            "--seed" => seed = v.parse().unwrap_or(0),
            "--shard" => {
                let (a, b) = v.split_once('/').unwrap_or(("0", "1"));
                shard = a.parse().unwrap_or(0);
                nshards = b.parse::<u64>().unwrap_or(1).max(1);
            }
            "--log" => log = v,
            "--replay" => {
                let text = std::fs::read_to_string(&v).expect("read replay file");
                let val: serde_json::Value = serde_json::from_str(&text).expect("parse replay file");
                // accept either the bare case or the driver's wrapper {property, class, ..., replay}
                replay = Some(if val.get("replay").is_some() { val["replay"].clone() } else { val });
            }
            "--budget" => budget_s = v.parse().unwrap_or(3600),
            "--scale" => scale_pct = v.parse().unwrap_or(100),
            "--layer" => layer = v,
            other => {
                eprintln!("unknown argument {other}");
                std::process::exit(2);
            }
        }
        i += 2;
    }

    if std::env::var("AVMON_TRACE").is_ok() {
        struct L;
        impl log::Log for L {
            fn enabled(&self, _: &log::Metadata<'_>) -> bool {
                true
            }
            fn log(&self, r: &log::Record<'_>) {
                if r.target().starts_with("actix") || r.target().starts_with("awc") {
                    eprintln!("[{}] {}", r.target(), r.args());
                }
            }
            fn flush(&self) {}
        }
        static LOGGER: L = L;
        let _ = log::set_logger(&LOGGER);
        log::set_max_level(log::LevelFilter::Trace);
    }
    report::install_panic_hook();
    let ctx = Ctx { tier, seed, shard, nshards, replay, budget_s, start: Instant::now(), scale_pct, layer };
    let mut rep = Reporter::new(&id, &log);
    let t0 = Instant::now();
    let known = props::run(&id, &ctx, &mut rep);
    if !known {
        eprintln!("unknown property id {id}");
        std::process::exit(2);
    }
    rep.finish(t0.elapsed().as_secs_f64());
}
