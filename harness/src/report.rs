//! Run context and the event log every monitor writes to.  One JSONL file per shard; the driver
//! (`/verif/check`) merges shards, applies known findings and writes the evidence file.

use std::{
    cell::RefCell,
    collections::{BTreeMap, HashSet},
    fs::File,
    io::{BufWriter, Write},
    panic::{self, AssertUnwindSafe},
    time::Instant,
};

use serde_json::{json, Value};

use crate::util::fnv_str;

#[derive(Clone, Copy, PartialEq, Eq, Debug)]
pub enum Tier {
    Quick,
    Thorough,
}

pub struct Ctx {
    pub tier: Tier,
    pub seed: u64,
    pub shard: u64,
    pub nshards: u64,
    pub replay: Option<Value>,
    pub budget_s: u64,
    pub start: Instant,
    /// scale factor in percent applied to random-phase case counts (Miri/ASan layers use < 100)
    pub scale_pct: u64,
    /// free-form layer name ("mon", "monrel", "miri", "asan")
    pub layer: String,
}

impl Ctx {
    /// Is case number `idx` of an enumeration this shard's to run?
    pub fn mine(&self, idx: u64) -> bool {
        idx % self.nshards == self.shard
    }
    pub fn n(&self, quick: u64, thorough: u64) -> u64 {
        let base = if self.tier == Tier::Quick { quick } else { thorough };
        (base * self.scale_pct / 100).max(1)
    }
    /// per-shard share of a total
    pub fn share(&self, quick: u64, thorough: u64) -> u64 {
        (self.n(quick, thorough) / self.nshards).max(1)
    }
    pub fn thorough(&self) -> bool {
        self.tier == Tier::Thorough
    }
    pub fn out_of_time(&self) -> bool {
        self.start.elapsed().as_secs() >= self.budget_s
    }
    pub fn is_miri(&self) -> bool {
        self.layer == "miri"
    }
}

pub struct Reporter {
    pub prop: String,
    out: BufWriter<File>,
    counters: BTreeMap<String, u64>,
    sigs: HashSet<u64>,
    samples: Vec<Value>,
    sample_keys: HashSet<String>,
    viol_seen: HashSet<(String, String)>,
    pub violations: u64,
    inconclusive: Vec<String>,
    exhaustive: BTreeMap<String, bool>,
}

impl Reporter {
    pub fn new(prop: &str, path: &str) -> Self {
        let f = File::create(path).expect("create shard log");
        Reporter {
            prop: prop.to_string(),
            out: BufWriter::new(f),
            counters: BTreeMap::new(),
            sigs: HashSet::new(),
            samples: vec![],
            sample_keys: HashSet::new(),
            viol_seen: HashSet::new(),
            violations: 0,
            inconclusive: vec![],
            exhaustive: BTreeMap::new(),
        }
    }

    /// bump an observation counter (reported in the evidence under coverage.observed)
    pub fn count(&mut self, key: &str, n: u64) {
        *self.counters.entry(key.to_string()).or_insert(0) += n;
    }
    pub fn max(&mut self, key: &str, v: u64) {
        let e = self.counters.entry(format!("max:{key}")).or_insert(0);
        if v > *e {
            *e = v;
        }
    }
    pub fn get(&self, key: &str) -> u64 {
        self.counters.get(key).copied().unwrap_or(0)
    }
    /// one evaluated case
    pub fn eval(&mut self) {
        self.count("evaluations", 1);
    }
    /// record the abstract signature of a non-trivial case; distinct_nontrivial = |union of these|
    pub fn sig(&mut self, s: &str) {
        self.sigs.insert(fnv_str(s));
    }
    /// keep a few written-out cases per `kind` for the evidence file
    pub fn sample(&mut self, kind: &str, v: Value) {
        let n = self.samples.iter().filter(|s| s["kind"] == kind).count();
        if n < 2 {
            self.samples.push(json!({"kind": kind, "case": v}));
        }
        let _ = &self.sample_keys;
    }
    /// declare that the finite space `what` was / was not enumerated completely by this shard's share
    pub fn exhaustive(&mut self, what: &str, complete: bool) {
        let e = self.exhaustive.entry(what.to_string()).or_insert(true);
        *e = *e && complete;
    }

    /// A violation witness.  `class` names the oracle clause, `signature` identifies the failing
    /// input/call site/history precisely enough that known-finding matching cannot hide a different
    /// failure; both must be independent of seed and shard.
    pub fn violation(&mut self, class: &str, signature: &str, detail: &str, replay: Value) {
        self.violations += 1;
        self.count(&format!("violations:{class}"), 1);
        let key = (class.to_string(), signature.to_string());
        if self.viol_seen.contains(&key) {
            return;
        }
        // bound log growth on a badly broken tree: at most 40 distinct witnesses per shard
        if self.viol_seen.len() >= 40 {
            return;
        }
        self.viol_seen.insert(key);
        let line = json!({"t": "viol", "class": class, "signature": signature, "detail": detail, "replay": replay});
        let _ = writeln!(self.out, "{}", line);
        let _ = self.out.flush();
    }

    pub fn inconclusive(&mut self, why: &str) {
        self.inconclusive.push(why.to_string());
    }

    pub fn finish(mut self, wall_s: f64) {
        let mut sigs: Vec<u64> = self.sigs.iter().copied().collect();
        sigs.sort_unstable();
        let line = json!({
            "t": "done",
            "counters": self.counters,
            "sigs": sigs.iter().map(|s| format!("{:016x}", s)).collect::<Vec<_>>(),
            "samples": self.samples,
            "inconclusive": self.inconclusive,
            "exhaustive": self.exhaustive,
            "wall_s": wall_s,
        });
        let _ = writeln!(self.out, "{}", line);
        let _ = self.out.flush();
    }
}

thread_local! {
    static LAST_PANIC: RefCell<Option<String>> = const { RefCell::new(None) };
}

/// Install a hook that remembers the panic message and location instead of printing a backtrace
/// per generated case.
pub fn install_panic_hook() {
    panic::set_hook(Box::new(|info| {
        let msg = if let Some(s) = info.payload().downcast_ref::<&str>() {
            s.to_string()
        } else if let Some(s) = info.payload().downcast_ref::<String>() {
            s.clone()
        } else {
            "<non-string panic>".to_string()
        };
        let loc = info
            .location()
            .map(|l| format!("{}:{}", l.file(), l.line()))
            .unwrap_or_default();
        // the first few are also printed, so that a panic outside any guard (a harness bug, which
        // kills the shard) leaves a trace in the shard's stderr file
        static PRINTED: std::sync::atomic::AtomicU32 = std::sync::atomic::AtomicU32::new(0);
        if PRINTED.fetch_add(1, std::sync::atomic::Ordering::Relaxed) < 10 {
            eprintln!("panic: {msg} @ {loc}");
        }
        LAST_PANIC.with(|p| *p.borrow_mut() = Some(format!("{msg} @ {loc}")));
    }));
}

/// Run `f`, turning a panic anywhere below it (library code included) into `Err("msg @ file:line")`.
pub fn guard<T>(f: impl FnOnce() -> T) -> Result<T, String> {
    match panic::catch_unwind(AssertUnwindSafe(f)) {
        Ok(v) => Ok(v),
        Err(_) => Err(LAST_PANIC
            .with(|p| p.borrow_mut().take())
            .unwrap_or_else(|| "panic (no message)".into())),
    }
}

/// Location part of a guard() error with the line number stripped and the path made
/// repository-relative: stable signature material for a panic finding.
pub fn panic_site(msg: &str) -> String {
    let loc = msg.rsplit(" @ ").next().unwrap_or("");
    let file = loc.rsplit_once(':').map(|x| x.0).unwrap_or(loc);
    let file = file.trim_start_matches("/repo/");
    match file.find("actix-").or_else(|| file.find("awc/")) {
        Some(i) if !file.starts_with("src/") => file[i..].to_string(),
        _ => file.to_string(),
    }
}
