//! Workload generators.
pub mod h1;
