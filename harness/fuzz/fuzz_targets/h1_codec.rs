#![no_main]
//! h1::Codec (requests) and h1::ClientCodec (responses) decode loops.  The codecs' config owns a
//! date service, so every input runs inside one long-lived actix System.
use actix_http::h1;
use bytes::BytesMut;
use libfuzzer_sys::fuzz_target;
use tokio_util::codec::Decoder;

thread_local! {
    static SYS: actix_rt::SystemRunner = actix_rt::System::new();
}

fn requests(stream: &[u8], cut: usize) {
    let mut codec = h1::Codec::default();
    let mut buf = BytesMut::new();
    let mut calls = 0usize;
    for seg in [&stream[..cut], &stream[cut..]] {
        buf.extend_from_slice(seg);
        loop {
            calls += 1;
            assert!(calls <= 2 * stream.len() + 16, "decoder does not terminate");
            let before = buf.len();
            match codec.decode(&mut buf) {
                Ok(Some(_)) => {}
                Ok(None) if buf.len() == before => break,
                Ok(None) => {}
                Err(_) => return,
            }
        }
    }
}

fn responses(stream: &[u8], cut: usize) {
    enum St {
        Head(h1::ClientCodec),
        Body(h1::ClientPayloadCodec),
    }
    let mut st = St::Head(h1::ClientCodec::default());
    let mut buf = BytesMut::new();
    let mut calls = 0usize;
    for seg in [&stream[..cut], &stream[cut..]] {
        buf.extend_from_slice(seg);
        loop {
            calls += 1;
            assert!(calls <= 2 * stream.len() + 16, "decoder does not terminate");
            let before = buf.len();
            st = match st {
                St::Head(mut c) => match c.decode(&mut buf) {
                    Err(_) => return,
                    Ok(Some(_)) => match c.message_type() {
                        h1::MessageType::None => St::Head(c),
                        _ => St::Body(c.into_payload_codec()),
                    },
                    Ok(None) if buf.len() == before => {
                        st = St::Head(c);
                        break;
                    }
                    Ok(None) => St::Head(c),
                },
                St::Body(mut p) => match p.decode(&mut buf) {
                    Err(_) => return,
                    Ok(Some(Some(_))) => St::Body(p),
                    Ok(Some(None)) => St::Head(p.into_message_codec()),
                    Ok(None) if buf.len() == before => {
                        st = St::Body(p);
                        break;
                    }
                    Ok(None) => St::Body(p),
                },
            };
        }
    }
}

fuzz_target!(|data: &[u8]| {
    if data.len() < 2 {
        return;
    }
    let (sel, cut, stream) = (data[0], data[1] as usize, &data[2..]);
    let cut = cut.min(stream.len());
    SYS.with(|sys| {
        sys.block_on(async {
            if sel & 1 == 0 {
                requests(stream, cut)
            } else {
                responses(stream, cut)
            }
        })
    });
});
