#![no_main]
//! Typed headers (first byte picks the header) and the router (`ResourceDef` + `Path<Url>` +
//! `Path::load`) on whatever survives the transport's own validation (HeaderValue / http::Uri).
use std::collections::HashMap;

use actix_router::{Path, ResourceDef, Url};
use actix_web::http::header::{self as wh, Header, HeaderValue};
use libfuzzer_sys::fuzz_target;

fn parse<H: Header>(v: HeaderValue) {
    // a bare message: `TestRequest::to_http_request()` leaks one request pool per call
    let mut req = actix_http::Request::new();
    req.headers_mut().insert(H::name(), v);
    if let Ok(h) = H::parse(&req) {
        let _ = h.try_into_value();
    }
}

fn header(sel: u8, v: HeaderValue) {
    match sel % 20 {
        0 => parse::<wh::Accept>(v),
        1 => parse::<wh::AcceptCharset>(v),
        2 => parse::<wh::AcceptEncoding>(v),
        3 => parse::<wh::AcceptLanguage>(v),
        4 => parse::<wh::Allow>(v),
        5 => parse::<wh::CacheControl>(v),
        6 => parse::<wh::ContentDisposition>(v),
        7 => parse::<wh::ContentLanguage>(v),
        8 => parse::<wh::ContentRange>(v),
        9 => parse::<wh::ContentType>(v),
        10 => parse::<wh::Date>(v),
        11 => parse::<wh::ETag>(v),
        12 => parse::<wh::Expires>(v),
        13 => parse::<wh::IfMatch>(v),
        14 => parse::<wh::IfModifiedSince>(v),
        15 => parse::<wh::IfNoneMatch>(v),
        16 => parse::<wh::IfRange>(v),
        17 => parse::<wh::IfUnmodifiedSince>(v),
        18 => parse::<wh::LastModified>(v),
        _ => parse::<wh::Range>(v),
    }
}

thread_local! {
    static DEFS: Vec<ResourceDef> = vec![
        ResourceDef::new("/a/{v}"),
        ResourceDef::new("/b/{a}/{b}"),
        ResourceDef::new("/t/{tail}*"),
        ResourceDef::new("/r/{x:\\d+}/{y:[a-z]*}"),
        ResourceDef::prefix("/s/{sx}"),
        ResourceDef::new(["/m1/{id}", "/m2/{id}/{k}"]),
        ResourceDef::new("/{a}/{b}/{c}"),
    ];
}

fn route(path: &[u8]) {
    let Ok(s) = std::str::from_utf8(path) else { return };
    let Ok(uri) = http::Uri::try_from(s) else { return };
    DEFS.with(|defs| {
        for d in defs {
            let mut p = Path::new(Url::new(uri.clone()));
            if d.capture_match_info(&mut p) {
                for (k, _) in p.iter() {
                    let _ = p.get(k);
                }
                let _ = p.unprocessed();
                let _ = p.load::<u32>();
                let _ = p.load::<(String, u32)>();
                let _ = p.load::<Vec<String>>();
                let _ = p.load::<HashMap<String, String>>();
            }
        }
    });
}

fuzz_target!(|data: &[u8]| {
    if data.is_empty() {
        return;
    }
    if data[0] & 0x80 != 0 {
        route(&data[1..]);
    } else if let Ok(v) = HeaderValue::from_bytes(&data[1..]) {
        header(data[0], v);
    }
});

/// `ResourceDef::parse` leaks its capture names on purpose (documented in the source).
#[no_mangle]
pub extern "C" fn __lsan_default_suppressions() -> *const std::ffi::c_char {
    c"leak:actix-router/src/resource.rs\nleak:actix_router::resource::ResourceDef\n".as_ptr()
}
