#![no_main]
//! ws::Codec in both roles: the first byte picks role and max_size, the rest is the stream; the
//! second byte picks a cut so the decoder also sees the stream in two reads.
use actix_http::ws;
use bytes::BytesMut;
use libfuzzer_sys::fuzz_target;
use tokio_util::codec::Decoder;

fuzz_target!(|data: &[u8]| {
    if data.len() < 2 {
        return;
    }
    let (sel, cut, stream) = (data[0], data[1] as usize, &data[2..]);
    let mut codec = ws::Codec::new().max_size([0usize, 125, 126, 65_536, 1 << 20][(sel >> 1) as usize % 5]);
    if sel & 1 == 1 {
        codec = codec.client_mode();
    }
    let cut = cut.min(stream.len());
    let mut buf = BytesMut::new();
    let mut calls = 0usize;
    for seg in [&stream[..cut], &stream[cut..]] {
        buf.extend_from_slice(seg);
        loop {
            calls += 1;
            assert!(calls <= 2 * stream.len() + 16, "decoder does not terminate");
            let before = buf.len();
            match codec.decode(&mut buf) {
                Ok(Some(_)) => {}
                Ok(None) if buf.len() == before => break,
                Ok(None) => {}
                Err(_) => return,
            }
        }
    }
});
