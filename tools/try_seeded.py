#!/usr/bin/env python3
"""Run checks against a breaking change without touching /repo, /verif/evidence or /verif/replays.

  tools/try_seeded.py <patch.diff> <ID> [<ID> ...]      [--tier quick|thorough] [--seed N]

The patch is applied to a scratch worktree of /repo's HEAD (created on first use under
$SEED_SCRATCH, default /tmp/seedtest), the checks run with VERIF_REPO pointing at it (the driver
then builds in a shadow directory next to the worktree), and the worktree is reset afterwards.
Prints one line per check: CAUGHT (exit 1) / MISSED (exit 0) / INCONCLUSIVE (exit 2) and the
violation classes reported.  Remove the scratch directory when done:
  git -C /repo worktree remove --force /tmp/seedtest/repo; rm -rf /tmp/seedtest
"""
import os, subprocess, sys, re

def main():
    a = sys.argv[1:]
    tier, seed = "quick", "1"
    if "--tier" in a:
        i = a.index("--tier"); tier = a[i + 1]; del a[i:i + 2]
    if "--seed" in a:
        i = a.index("--seed"); seed = a[i + 1]; del a[i:i + 2]
    patch, ids = os.path.abspath(a[0]), a[1:]
    scratch = os.environ.get("SEED_SCRATCH", "/tmp/seedtest")
    wt = os.path.join(scratch, "repo")
    if not os.path.isdir(wt):
        os.makedirs(scratch, exist_ok=True)
        subprocess.check_call(["git", "-C", "/repo", "worktree", "add", "--detach", wt, "HEAD"], stdout=subprocess.DEVNULL)
    else:
        head = subprocess.check_output(["git", "-C", "/repo", "rev-parse", "HEAD"]).strip()
        subprocess.check_call(["git", "-C", wt, "checkout", "-q", "--detach", head.decode()])
    subprocess.check_call(["git", "-C", wt, "checkout", "-q", "--", "."])
    r = subprocess.run(["git", "-C", wt, "apply", patch], capture_output=True, text=True)
    if r.returncode != 0:
        print(f"PATCH DOES NOT APPLY: {r.stderr.strip()}")
        return 3
    env = dict(os.environ, VERIF_REPO=wt, VERIF_SHADOW=os.path.join(scratch, "avmon"), VERIF_SEED=seed)
    verif = os.path.dirname(os.path.dirname(os.path.abspath(__file__)))
    rc_all = 0
    try:
        for pid in ids:
            r = subprocess.run(["./check", pid, tier], cwd=verif, env=env, capture_output=True, text=True)
            classes = sorted(set(re.findall(r"violation class=(\S+)", r.stdout)))
            verdict = {0: "MISSED", 1: "CAUGHT", 2: "INCONCLUSIVE"}.get(r.returncode, f"rc={r.returncode}")
            tail = [l for l in r.stdout.splitlines() if l.startswith("[check] " + pid)]
            print(f"{pid} {tier} seed={seed}: {verdict} classes={classes[:8]} {tail[-1] if tail else ''}", flush=True)
            if "build failed" in r.stdout:
                print(r.stdout[-1500:])
            rc_all = max(rc_all, r.returncode)
    finally:
        subprocess.call(["git", "-C", wt, "checkout", "-q", "--", "."])
    return 0

if __name__ == "__main__":
    sys.exit(main())
