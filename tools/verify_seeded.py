#!/usr/bin/env python3
"""Confirm a seeded change: it compiles, the touched crates' existing tests still pass with it,
and its demonstration fails with it and passes without it.  Runs in a scratch worktree only.

  tools/verify_seeded.py <dir with patch.diff, demo.diff, meta.json> <crate>[,<crate>...]

Writes <dir>/verified.json.  Scratch: $SEED_SCRATCH (default /tmp/seedtest)/repo.
"""
import json, os, re, subprocess, sys, time

def sh(cmd, cwd, timeout=3600):
    env = dict(os.environ, CARGO_NET_OFFLINE="true", CARGO_TERM_COLOR="never")
    try:
        r = subprocess.run(cmd, cwd=cwd, shell=True, capture_output=True, text=True, timeout=timeout, env=env)
        return r.returncode, r.stdout + r.stderr
    except subprocess.TimeoutExpired as e:
        return 124, (e.stdout or b"").decode(errors="replace") + "\nTIMEOUT"

def main():
    d = os.path.abspath(sys.argv[1])
    crates = sys.argv[2].split(",")
    meta = json.load(open(os.path.join(d, "meta.json")))
    scratch = os.environ.get("SEED_SCRATCH", "/tmp/seedtest")
    wt = os.path.join(scratch, "repo")
    if not os.path.isdir(wt):
        os.makedirs(scratch, exist_ok=True)
        subprocess.check_call(["git", "-C", "/repo", "worktree", "add", "--detach", wt, "HEAD"], stdout=subprocess.DEVNULL)
    head = subprocess.check_output(["git", "-C", "/repo", "rev-parse", "HEAD"]).decode().strip()
    subprocess.call(["git", "-C", wt, "checkout", "-q", "--", "."])
    subprocess.check_call(["git", "-C", wt, "checkout", "-q", "--detach", head])
    def reset():
        subprocess.check_call(["git", "-C", wt, "checkout", "-q", "--", "."])
        subprocess.check_call(["git", "-C", wt, "clean", "-fdq", "-e", "target"])
    reset()
    out = {"dir": d, "crates": crates, "at": time.strftime("%Y-%m-%dT%H:%M:%SZ", time.gmtime())}
    demo_cmd = meta["demo_cmd"]
    # run the demonstration in the scratch worktree, whatever directory the author used
    mm = re.search(r"cargo\s+(?:nextest run|test)[^()\n;&|]*?--test\s+([A-Za-z0-9_]+)", demo_cmd)
    if mm:
        # canonical form: the named integration test of the named package
        pkg = re.search(r"-p\s+(\S+)", mm.group(0))
        demo_cmd = f"cargo nextest run -p {pkg.group(1) if pkg else crates[0]} --offline --no-fail-fast --test {mm.group(1)}"
    else:
        demo_cmd = re.sub(r"cd\s+\S+\s*&&\s*", "", demo_cmd).split("(or")[0].strip()
        demo_cmd = re.sub(r"/tmp/mut/C\d+/repo", wt, demo_cmd)
    out["demo_cmd"] = demo_cmd
    # a demonstration delivered as a plain file is turned into demo.diff first
    if not os.path.exists(os.path.join(d, "demo.diff")) and mm:
        import glob as _g
        files = sorted(_g.glob(os.path.join(d, "demo_*.rs")))
        pkgname = pkg.group(1) if pkg else crates[0]
        if files:
            dest = os.path.join(wt, pkgname, "tests", mm.group(1) + ".rs")
            import shutil as _s
            _s.copy(files[0], dest)
            rel = os.path.relpath(dest, wt)
            sh(f"git add -N -- {rel}", wt)
            rc, diff = sh(f"git diff -- {rel}", wt)
            open(os.path.join(d, "demo.diff"), "w").write(diff)
            sh(f"git reset -q -- {rel}", wt)
            if os.path.exists(dest):
                os.remove(dest)
            reset()
    # 1. demonstration alone
    rc, _ = sh(f"git apply {d}/demo.diff", wt)
    if rc != 0:
        out["error"] = "demo.diff does not apply"
        json.dump(out, open(os.path.join(d, "verified.json"), "w"), indent=1); print(out); return 1
    rc, log = sh(demo_cmd, wt)
    out["demo_without_patch"] = "pass" if rc == 0 else f"FAIL rc={rc}"
    open(os.path.join(d, "verify_demo_without.log"), "w").write(log[-20000:])
    # 2. demonstration with the change
    rc, _ = sh(f"git apply {d}/patch.diff", wt)
    if rc != 0:
        out["error"] = "patch.diff does not apply"
        json.dump(out, open(os.path.join(d, "verified.json"), "w"), indent=1); print(out); return 1
    rc, log = sh(demo_cmd, wt)
    out["demo_with_patch"] = "fail (as required)" if rc not in (0, 124) else ("PASS (demonstration does not detect the change)" if rc == 0 else "TIMEOUT")
    open(os.path.join(d, "verify_demo_with.log"), "w").write(log[-20000:])
    # 3. existing tests of the touched crates with the change (demonstration removed)
    subprocess.check_call(["git", "-C", wt, "clean", "-fdq", "-e", "target"])
    pk = " ".join(f"-p {c}" for c in crates)
    cfg = os.path.join(os.path.dirname(os.path.abspath(__file__)), "nextest.toml")
    for attempt in range(3):
        rc, log = sh(f"cargo nextest run {pk} --offline --no-fail-fast --config-file {cfg}", wt, timeout=5400)
        # another session's `pkill` occasionally takes our test processes with it: run again
        if "due to signal" not in log and "SIGTERM [" not in log and "SIGKILL [" not in log:
            break
    open(os.path.join(d, "verify_suite.log"), "w").write(log[-60000:])
    m = re.search(r"Summary \[.*?\]\s+(\d+) tests run: (\d+) passed(?: \(.*?\))?(?:, (\d+) (?:failed|timed out))*", log)
    failed = sorted(set(re.findall(r"^\s+(?:FAIL|TIMEOUT|SIGTERM|SIGKILL) \[.*?\] \(\s*\d+/\d+\) (\S+) (\S+)$", log, re.M)))
    out["suite_first_run"] = m.group(0) if m else f"no summary (rc={rc})"
    still = []
    # not part of the baseline (BASELINE.json: dropped after the offline check, fails intermittently
    # on the unchanged tree as well)
    failed = [(b, t) for b, t in failed if t != "form::tests::field_try_next_panic"]
    for binary, test in failed:
        ok = False
        for _ in range(3):
            rc2, _ = sh(f"cargo nextest run {pk} --offline --config-file {cfg} -E 'test(={test})'", wt, timeout=1200)
            if rc2 == 0:
                ok = True
                break
        if not ok:
            still.append(f"{binary} {test}")
    out["suite_failed_first_run"] = [f"{b} {t}" for b, t in failed]
    out["suite_failed_after_rerun_alone"] = still
    out["suite_ok"] = bool(m) and not still
    out["kept"] = out["demo_without_patch"] == "pass" and out["demo_with_patch"].startswith("fail") and out["suite_ok"]
    reset()
    json.dump(out, open(os.path.join(d, "verified.json"), "w"), indent=1)
    print(json.dumps(out, indent=1))
    return 0

if __name__ == "__main__":
    sys.exit(main())
