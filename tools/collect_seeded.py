#!/usr/bin/env python3
"""Copy confirmed seeded changes from /tmp/mut/<ID>/m<k> to /verif/seeded/<ID>-m<k>/ and write INDEX.md.

A change is copied only when verified.json (tools/verify_seeded.py) says kept: it applies, the
existing tests of the touched crates pass with it, its demonstration fails with it and passes
without it.  seeded/results.json holds what the checks said (tools/try_seeded.py)."""
import glob, json, os, shutil
V = os.path.dirname(os.path.dirname(os.path.abspath(__file__)))
res = json.load(open(os.path.join(V, "seeded", "results.json")))
rows = []
for vf in sorted(glob.glob("/tmp/mut/C*/m*/verified.json")) + sorted(glob.glob("/tmp/mut2/C*/m*/verified.json")):
    d = os.path.dirname(vf)
    ver = json.load(open(vf))
    rnd = "-r2" if d.startswith("/tmp/mut2/") else ""
    key = f"{d.split('/')[3]}{rnd}-{os.path.basename(d)}"
    if not ver.get("kept"):
        print("not kept:", key, ver.get("demo_without_patch"), ver.get("demo_with_patch"), ver.get("suite_first_run"), ver.get("suite_failed_after_rerun_alone"))
        continue
    out = os.path.join(V, "seeded", key)
    os.makedirs(out, exist_ok=True)
    for f in ("patch.diff", "demo.diff"):
        shutil.copy(os.path.join(d, f), out)
    meta = json.load(open(os.path.join(d, "meta.json")))
    meta["confirmed"] = {k: ver[k] for k in ("at", "demo_cmd", "demo_without_patch", "demo_with_patch", "suite_first_run", "suite_failed_first_run", "suite_failed_after_rerun_alone", "crates") if k in ver}
    meta["confirmed"]["how"] = "tools/verify_seeded.py in a scratch worktree of /repo HEAD: demonstration alone, demonstration with the change, then `cargo nextest run -p <crates> --offline --no-fail-fast` with the change; tests failing in the full run were re-run alone"
    meta["checks"] = res.get(key, {})
    json.dump(meta, open(os.path.join(out, "meta.json"), "w"), indent=1)
    rows.append((key, meta.get("summary", "")[:150], meta["checks"]))
with open(os.path.join(V, "seeded", "INDEX.md"), "w") as f:
    f.write("# Independently seeded breaking changes\n\nEach directory: `patch.diff` (the change), `demo.diff` (a test that fails with it and passes without), `meta.json` (what it breaks, what it needs to manifest, how it was confirmed, what the checks said).\n\n| id | change | checks |\n|---|---|---|\n")
    for key, summ, chk in rows:
        c = "; ".join(f"{k}: {v}" for k, v in chk.items() if k != "ran")
        f.write(f"| {key} | {summ.replace('|', '/')} | {c.replace('|', '/')} |\n")
print(len(rows), "kept")
