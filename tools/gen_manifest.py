#!/usr/bin/env python3
"""Regenerate /verif/MANIFEST.json from checks.d/*.json + manifest_base.json (single source of truth)."""
import json, os
V = os.path.dirname(os.path.dirname(os.path.abspath(__file__)))
cfg = {"checks": {f[:-5]: json.load(open(os.path.join(V, "checks.d", f))) for f in sorted(os.listdir(os.path.join(V, "checks.d"))) if f.endswith(".json")}}
meta = json.load(open(os.path.join(V, "manifest_base.json")))
meta["checks"] = cfg["checks"]
props = [json.loads(l)["id"] for l in open(os.path.join(V, "properties.jsonl"))]
checks = []
for pid in sorted(cfg["checks"]):
    m = meta["checks"][pid]
    checks.append({
        "property_id": pid,
        "quick_cmd": f"./check {pid} quick",
        "thorough_cmd": f"./check {pid} thorough",
        "evidence_file": f"/verif/evidence/{pid}.json",
        "replay_cmd_template": f"./check {pid} --replay {{path}}",
        "engine": "avmon",
        "level_claimed": {"category": cfg["checks"][pid]["level"], "text": m["level_text"], "design_ref": m["design_ref"]},
        "level_note": m["level_note"],
        "technique": m["technique"],
    })
na = [{"property_id": p, "reason": meta["not_applicable"].get(p, "check not built yet in this session; see DESIGN.md section 6 for the planned monitor")}
      for p in props if p not in cfg["checks"]]
man = {
    "version": 1,
    "setup_cmd": "./check setup",
    "hooks": meta["hooks"],
    "engines": [{"name": "avmon", "path": "/verif/harness", "serves_properties": sorted(cfg["checks"]),
                 "kind_free_text": "Rust monitor binary linking the real crates from /repo's working tree; scripted in-memory socket, wake-driven executor, virtual time, reference-model and metamorphic oracles; sharded over cores by ./check; Miri / ASan layers in the thorough tier"}],
    "checks": checks,
    "not_applicable": na,
    "notes": meta["notes"],
}
json.dump(man, open(os.path.join(V, "MANIFEST.json"), "w"), indent=1)
print("MANIFEST.json:", len(checks), "checks,", len(na), "not_applicable")
